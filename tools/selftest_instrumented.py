#!/venv/bin/python
"""Run the repository's own test suite against the *instrumented* yarl package in concrete mode (engine off):
the AST rewrite must preserve concrete semantics (DESIGN 2.1).  Also runs tests/test_quoting.py against the
lowered _quoting_c.  usage: selftest_instrumented.py [py|c]"""
import os, sys
V = os.path.dirname(os.path.dirname(os.path.abspath(__file__)))
sys.path.insert(0, os.path.join(V, ".deps")); sys.path.insert(0, V)
REPO = os.environ.get("YARL_REPO", "/repo")
from sx import instrument, models, models_ext  # noqa
backend = sys.argv[1] if len(sys.argv) > 1 else "py"
lowered = None
if backend == "c":
    from sx.pyx import lower
    import tempfile
    lowered = lower.lower_file(os.path.join(REPO, "yarl", "_quoting_c.pyx"), work=tempfile.mkdtemp(dir="/var/tmp"))
pkg = instrument.load_yarl(REPO, True, backend, lowered_source=lowered)
sys.modules.update(pkg.mods)
if backend == "py":
    os.environ["YARL_NO_EXTENSIONS"] = "1"
import pytest
os.chdir(REPO)
args = ["-q", "-p", "no:cacheprovider", "-p", "no:xdist", "-o", "addopts=", "--timeout=900", "-x", "--ignore=tests/test_quoting_benchmarks.py", "--ignore=tests/test_url_benchmarks.py"]
args += ["tests"] if backend == "py" else ["tests/test_quoting.py"]
rc = pytest.main(args)
import yarl
assert "_sx_rt_" in vars(sys.modules["yarl._url"]), "tests did not run against the instrumented package"
sys.exit(int(rc))
