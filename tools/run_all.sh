#!/bin/bash
# run every claimed check once (tier = $1, default quick); summary lines -> stdout
cd "$(dirname "$0")/.."
tier=${1:-quick}
for p in $(/venv/bin/python -c "import json;print(' '.join(c['property_id'] for c in json.load(open('MANIFEST.json'))['checks']))"); do
  s=$(date +%s)
  out=$(./check $p --tier $tier 2>&1); rc=$?
  e=$(( $(date +%s) - s ))
  echo "$p rc=$rc ${e}s $(echo "$out" | grep -E "^$p tier" | cut -c1-200)"
  echo "$out" | grep -E "^(VIOLATION|INCONCLUSIVE|KNOWN)" | cut -c1-300 | head -4
done
