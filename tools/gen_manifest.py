#!/venv/bin/python
"""Regenerate MANIFEST.json from props/*.py metadata (MANIFEST_ENTRY dicts) and NOT_APPLICABLE below."""
import ast, json, os, sys
V = os.path.dirname(os.path.dirname(os.path.abspath(__file__)))
ALL = ["C%02d" % i for i in range(1, 21)]

NOT_APPLICABLE = {
    "C20": "thread-safety over CPython's pre-emption schedules: the state at risk lives in C (propcache's descriptor, "
           "lru_cache's lock, dict atomicity, the extension's static buffer under the GIL); no engine in the sandbox executes "
           "CPython threads symbolically, and a source-level interleaver would enumerate schedules of different code rather "
           "than obtain a solver verdict (DESIGN.md section 5)",
}


def meta(path):
    tree = ast.parse(open(path).read())
    out = {}
    for n in tree.body:
        if isinstance(n, ast.Assign) and len(n.targets) == 1 and isinstance(n.targets[0], ast.Name):
            if n.targets[0].id in ("PROPERTY", "LEVEL", "MANIFEST_ENTRY", "ASSUMPTIONS"):
                out[n.targets[0].id] = ast.literal_eval(n.value)
    return out


def main():
    checks, claimed = [], set()
    for pid in ALL:
        p = os.path.join(V, "props", pid.lower() + ".py")
        if not os.path.exists(p):
            continue
        m = meta(p)
        if "MANIFEST_ENTRY" not in m:
            continue
        e = m["MANIFEST_ENTRY"]
        claimed.add(pid)
        checks.append({
            "property_id": pid,
            "quick_cmd": "./check %s --tier quick" % pid,
            "thorough_cmd": "./check %s --tier thorough" % pid,
            "evidence_file": "/verif/evidence/%s.json" % pid,
            "replay_cmd_template": "./check %s --replay {path}" % pid,
            "engine": "sx",
            "level_claimed": {"category": m.get("LEVEL", "model_checking"), "text": e["text"], "design_ref": e.get("design_ref", "DESIGN.md section 4")},
            "level_note": e["note"],
            "technique": e["technique"],
        })
    na = []
    for pid in ALL:
        if pid not in claimed:
            na.append({"property_id": pid, "reason": NOT_APPLICABLE.get(pid, "check not built yet in this round (planned: DESIGN.md section 4)")})
    man = {
        "version": 1,
        "setup_cmd": "./setup.sh",
        "hooks": {"guard": "YARL_VERIF", "enable": "none needed: the checks instrument an in-memory copy of /repo's sources at import time; /repo carries no hook code",
                  "baseline_off_cmd": "cd /repo && /venv/bin/python -m pytest -ra -q -p no:cacheprovider --timeout=900 --continue-on-collection-errors",
                  "source_commits": [], "add_only": True},
        "engines": [{"name": "sx", "path": "/verif/sx", "serves_properties": sorted(claimed),
                     "kind_free_text": "purpose-built symbolic executor: AST-instrumented real yarl sources (and _quoting_c.pyx lowered through "
                                       "Cython's own parser/type analysis) run on symbolic strings/ints; every branch and postcondition is a z3 QF_BV query; "
                                       "counterexamples and one witness per path are replayed on the real build"}],
        "checks": checks,
        "not_applicable": na,
        "notes": "Exit codes: 0 held within bounds, 1 VIOLATION (replayed on the real code first), 2 inconclusive / harness error (never reported as success). "
                 "Known findings: known_findings.json + known_predicates.py.",
    }
    json.dump(man, open(os.path.join(V, "MANIFEST.json"), "w"), indent=1)
    print("claimed:", sorted(claimed))


if __name__ == "__main__":
    main()
