#!/venv/bin/python
"""Confirm each seeded change (tests pass, demo fails with it / passes without it) and run the checks against it.

usage: eval_mutants.py [--only C05-m1,...] [--checks C05,C01] [--tier quick]
Works in a scratch git worktree of /repo (never in /repo itself); results -> seeded/<id>/meta.json"""
import argparse, json, os, re, shutil, subprocess, sys, time
V = os.path.dirname(os.path.dirname(os.path.abspath(__file__)))
WT = os.environ.get("MUTWT", "/var/tmp/mutwt")   # several evaluations may run side by side with different MUTWT
INC = subprocess.check_output(["/venv/bin/python", "-c", "import sysconfig;print(sysconfig.get_paths()['include'])"]).decode().strip()
EXT = subprocess.check_output(["/venv/bin/python", "-c", "import sysconfig;print(sysconfig.get_config_var('EXT_SUFFIX'))"]).decode().strip()


def sh(cmd, cwd=None, env=None, timeout=3600):
    e = dict(os.environ)
    if env:
        e.update(env)
    p = subprocess.run(cmd, shell=True, cwd=cwd, env=e, capture_output=True, text=True, timeout=timeout)
    return p.returncode, p.stdout + p.stderr


def fresh_wt():
    sh("git -C /repo worktree remove --force %s" % WT)
    shutil.rmtree(WT, ignore_errors=True)
    rc, out = sh("git -C /repo worktree add -q --detach %s HEAD" % WT)
    assert rc == 0, out


def build_ext():
    rc, out = sh("/venv/bin/python -m cython -3 yarl/_quoting_c.pyx -o yarl/_quoting_c.c && gcc -shared -fPIC -O1 -fwrapv -I%s yarl/_quoting_c.c -o yarl/_quoting_c%s" % (INC, EXT), cwd=WT)
    return rc == 0, out[-500:]


def main():
    ap = argparse.ArgumentParser()
    ap.add_argument("--only")
    ap.add_argument("--checks")
    ap.add_argument("--tier", default="quick")
    ap.add_argument("--skip-confirm", action="store_true")
    a = ap.parse_args()
    ids = sorted(d for d in os.listdir(os.path.join(V, "seeded")) if os.path.exists(os.path.join(V, "seeded", d, "patch.diff")))
    if a.only:
        ids = [i for i in ids if i in a.only.split(",")]
    for mid in ids:
        d = os.path.join(V, "seeded", mid)
        meta_p = os.path.join(d, "meta.json")
        meta = json.load(open(meta_p)) if os.path.exists(meta_p) else {}
        prop = mid.split("-")[0]
        meta.setdefault("property", prop)
        fresh_wt()
        patch = os.path.join(d, "patch.diff")
        rc, out = sh("git apply %s" % patch, cwd=WT)
        how = "git apply"
        if rc:
            rc, out = sh("git apply -3 %s" % patch, cwd=WT)
            how = "git apply -3"
        if rc:
            rc, out = sh("patch -p1 --fuzz=3 < %s" % patch, cwd=WT)
            how = "patch --fuzz=3"
        meta["applies_to_head"] = rc == 0
        meta["applied_with"] = how if rc == 0 else "FAILED: " + out[-300:]
        if rc:
            json.dump(meta, open(meta_p, "w"), indent=1)
            print(mid, "PATCH DOES NOT APPLY")
            continue
        pyx = "_quoting_c.pyx" in open(patch).read()
        if pyx:
            ok, o = build_ext()
            meta["extension_rebuilt"] = ok
        shutil.copy(os.path.join(d, "demo.py"), os.path.join(WT, "_demo.py"))
        if not a.skip_confirm:
            rc1, o1 = sh("/venv/bin/python _demo.py", cwd=WT, timeout=900)
            rct, ot = sh("/venv/bin/python -m pytest -q -p no:cacheprovider --timeout=900 -x 2>&1 | tail -3", cwd=WT, timeout=1800)
            m = re.search(r"(\d+) passed", ot)
            meta["confirmed"] = dict(demo_with_change_exit=rc1, tests_with_change=ot.strip().splitlines()[-1] if ot.strip() else "",
                                     tests_pass=bool(m) and not re.search(r"\b\d+ (failed|error)", ot))
        # checks against the changed tree
        checks = a.checks.split(",") if a.checks else [prop]
        res = meta.setdefault("checks", {})
        for c in checks:
            t = time.time()
            rcc, oc = sh("./check %s --tier %s --no-evidence%s" % (c, a.tier, (" --budget " + os.environ["MUT_BUDGET"]) if os.environ.get("MUT_BUDGET") else ""), cwd=V, env={"YARL_REPO": WT}, timeout=7200)
            lines = [l for l in oc.splitlines() if l.startswith(("VIOLATION", "  family", "INCONCLUSIVE", "OK ", "KNOWN"))]
            res["%s/%s" % (c, a.tier)] = dict(exit=rcc, wall_s=round(time.time() - t), head=[l[:300] for l in lines[:4]])
            print(mid, c, a.tier, "exit", rcc, (lines[:2] or [""])[0][:160])
            sys.stdout.flush()
        if not a.skip_confirm:
            sh("git checkout -- yarl && rm -f yarl/_quoting_c.c yarl/_quoting_c%s" % EXT, cwd=WT)
            if pyx:
                build_ext()
            rc0, o0 = sh("/venv/bin/python _demo.py", cwd=WT, timeout=900)
            meta["confirmed"]["demo_without_change_exit"] = rc0
        json.dump(meta, open(meta_p, "w"), indent=1)
    sh("git -C /repo worktree remove --force %s" % WT)
    shutil.rmtree(WT, ignore_errors=True)


if __name__ == "__main__":
    main()
