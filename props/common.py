"""helpers shared by the property harnesses (loaded through the instrumenter)"""
from sx.harness import Family, EXCLUDED
from sx.core import all_of, any_of, sym_eq
from sx.models import ExcludedInput

OK_EXC = ("ValueError", "TypeError")


def call(f, *a, **k):
    """('ok', value) | ('exc', ExceptionTypeName, exception).  Engine exceptions are BaseException and pass through."""
    try:
        return ("ok", f(*a, **k))
    except ExcludedInput as e:
        # a counted exclusion (un-modelled library code reached with symbolic text): the outcome of this call is
        # outside the claim on this path; callers skip their checks for it instead of losing the whole path
        return ("excluded", e.label, None)
    except Exception as e:
        return ("exc", type(e).__name__, e)


def outcome(r, value=False):
    """observation of a call result: exception type name, 'ok' (or the value), or the EXCLUDED marker"""
    if r[0] == "excluded":
        return EXCLUDED
    if r[0] == "exc":
        return r[1]
    return r[1] if value else "ok"


def is_value_error(r):
    return r[0] == "exc" and isinstance(r[2], ValueError)


def lengths(total_max, parts):
    """all length vectors of `parts` components with sum <= total_max"""
    out = [[]]
    for _ in range(parts):
        out = [v + [k] for v in out for k in range(total_max + 1 - sum(v))]
    return out
