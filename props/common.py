"""helpers shared by the property harnesses (loaded through the instrumenter)"""
from sx.harness import Family
from sx.core import all_of, any_of, sym_eq

OK_EXC = ("ValueError", "TypeError")


def call(f, *a, **k):
    """('ok', value) | ('exc', ExceptionTypeName, exception).  Engine exceptions are BaseException and pass through."""
    try:
        return ("ok", f(*a, **k))
    except Exception as e:
        return ("exc", type(e).__name__, e)


def is_value_error(r):
    return r[0] == "exc" and isinstance(r[2], ValueError)


def lengths(total_max, parts):
    """all length vectors of `parts` components with sum <= total_max"""
    out = [[]]
    for _ in range(parts):
        out = [v + [k] for v in out for k in range(total_max + 1 - sum(v))]
    return out
