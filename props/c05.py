"""C05 -- pure-Python and compiled quoters are interchangeable (translation validation, bounded)."""
import ast
import os
from common import Family, call, sym_eq

PROPERTY = "C05"
LEVEL = "translation_validation"
BUDGET = {"quick": 280, "thorough": 3000}
BOUNDS = {"quick": "all texts of <= 2 code points (all of Unicode incl. surrogates) + escape skeletons with one free hole and hex holes, "
                   "9 quoter + 4 unquoter configurations read from the live _quoters.py; lowered extension with BUF_SIZE 8192 and 3",
          "thorough": "all texts of <= 3 code points (<= 4 for the requoters) + escape skeletons; BUF_SIZE in {8192, 1, 2, 3, 5}"}
ASSUMPTIONS = ["the compiled implementation is analysed through the lowering of _quoting_c.pyx (sx/pyx), regenerated on every run and validated "
               "per path against the extension rebuilt from the same .pyx",
               "the real 8 KiB buffer boundary is outside the solver bound: the buffer constant is re-parameterised to small values (the code is "
               "parametric in it); the real boundary is exercised only by concrete replay",
               "texts longer than the bound are outside the claim"]
MANIFEST_ENTRY = {
    "text": "Translation validation (bounded): the pure-Python quoter source and the Cython source lowered to Python with C semantics are executed "
            "symbolically on the same symbolic text; on every feasible path z3 decides that both return the same value or the same exception type.",
    "note": "Bounds in evidence.coverage.bounds. Trusted: sx engine + models, z3, the pyx lowering (concordance: every path witness is run through the "
            "real _quoting_py and the extension rebuilt from the working tree).",
    "technique": "symbolic differential execution of two implementations with z3 (QF_BV) deciding output equality per path",
    "design_ref": "DESIGN.md section 4 (C05)",
}

REPO = os.environ.get("YARL_REPO", "/repo")


def live_configs():
    """keyword arguments of every _Quoter/_Unquoter instance constructed by the working tree's _quoters.py"""
    tree = ast.parse(open(os.path.join(REPO, "yarl", "_quoters.py")).read())
    out = {}
    for n in tree.body:
        if isinstance(n, ast.Assign) and isinstance(n.value, ast.Call) and isinstance(n.value.func, ast.Name):
            if n.value.func.id in ("_Quoter", "_Unquoter") and not n.value.args:
                kw = {k.arg: ast.literal_eval(k.value) for k in n.value.keywords}
                out[n.targets[0].id] = (n.value.func.id, kw)
    return out


CONFIGS = live_configs()


def h_diff(ctx, name, n, skeleton=None):
    kind, cfg = CONFIGS[name]
    if skeleton is None:
        s = ctx.str("s", n)
    else:
        s = ""
        k = 0
        for part in skeleton:
            if part is None:
                s = s + ctx.str("h%d" % k, 1)
                k += 1
            elif part == "X":
                s = s + ctx.str("h%d" % k, 1, lo=48, hi=102)
                k += 1
            else:
                s = s + part
    ctx.note("s", s)
    ctx.note("cfg", cfg)
    P = ctx.P
    fp = getattr(P.quoting_py, kind)(**cfg)
    fc = getattr(P.quoting_c, kind)(**cfg)
    a = call(fp, s)
    b = call(fc, s)
    ctx.observe("py", a[:2])
    ctx.observe("c", b[:2])
    ctx.check("same-outcome-kind", a[0] == b[0], (a[:2], b[:2]))
    if a[0] == "exc":
        ctx.check("same-exception-type", a[1] == b[1], (a[1], b[1]))
    else:
        ctx.check("same-value", sym_eq(a[1], b[1]))


SKELETONS = [["%", None, "X", "X"], ["%", "X", None, "X"], ["%", "X", "X", None], [None, "%", "X", "X"],
             ["%", "X", "X", "%", "X", "X"],
             # a (possibly incomplete) escape run followed by two malformed '%' (pending bytes must be flushed exactly once)
             ["%", "X", "X", "%", "%", None]]
SKELETONS_THOROUGH = [["%", "X", "X", "%", None, "%", None]]


def families(tier):
    q = tier == "quick"
    fams = []
    requoters = [k for k, (kind, cfg) in CONFIGS.items() if kind == "_Quoter" and cfg.get("requote", True)]
    for name, (kind, cfg) in CONFIGS.items():
        nmax = 2 if q else (4 if name in requoters else 3)
        for k in range(1, nmax + 1):
            fams.append(Family("%s/n=%d" % (name, k), h_diff, dict(name=name, n=k), backends=("c",)))
        if kind == "_Unquoter" or name in requoters:
            for i, sk in enumerate(SKELETONS + ([] if q or kind != "_Unquoter" else SKELETONS_THOROUGH)):
                fams.append(Family("%s/escape-%d" % (name, i), h_diff, dict(name=name, n=0, skeleton=sk), backends=("c",)))
    # the buffer-growth code paths: re-parameterised buffer constant
    for bs in ((3,) if q else (1, 2, 3, 5)):
        for name in ("QUOTER", "PATH_REQUOTER", "QUERY_PART_QUOTER"):
            if name in CONFIGS:
                for k in range(1, (2 if q else 3) + 1):
                    fams.append(Family("%s/BUF_SIZE=%d/n=%d" % (name, bs, k), h_diff, dict(name=name, n=k), backends=("c%d" % bs,)))
    return fams
