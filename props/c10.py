"""C10 -- equality, hashing and ordering are coherent."""
from common import Family, call, all_of, any_of, sym_eq, lengths
import urlkit as U

PROPERTY = "C10"
LEVEL = "model_checking"
BUDGET = {"quick": 240, "thorough": 2400}
BOUNDS = {"quick": "pairs of URLs built from two symbolic 5-tuples (scheme, netloc, path, query, fragment): all shapes with <= 1 code point per "
                   "component and <= 3 in total, ''-vs-free path under an authority, mixed shapes; plus constructor-made pairs differing in one hole",
          "thorough": "shapes with <= 2 code points per component and <= 4 in total"}
ASSUMPTIONS = ["URLs are built with from_parts_uncached (any 5-tuple of strings), i.e. the comparison operators are checked on arbitrary stored parts, "
               "not only on parser output", "component texts longer than the bound are outside the claim",
               "reflexivity, symmetry and transitivity follow from the component-wise characterisation and are not queried separately"]
MANIFEST_ENTRY = {
    "text": "Bounded model checking of __eq__/__hash__/__lt__/__le__/__gt__/__ge__ on pairs of URLs whose five stored parts are symbolic: z3 decides on "
            "every path that == is exactly component-wise equality (empty path under an authority counting as '/'), equal URLs have equal hash keys, "
            "and exactly one of <, ==, > holds with <= and >= consistent.",
    "note": "Bounds in evidence.coverage.bounds. Trusted: sx engine + models (hash modelled as an opaque key with tuple equality; concordance-validated), z3.",
    "technique": "symbolic execution of the instrumented comparison operators with z3 (QF_BV) over pairs of symbolic 5-tuples",
}
NAMES = ("s", "n", "p", "q", "f")


def mk(ctx, tag, lens):
    parts = []
    for nm, k in zip(NAMES, lens):
        parts.append(ctx.str(tag + nm, k) if k else "")
    return parts


def norm_path(parts):
    return "/" if (not parts[2] and parts[1]) else parts[2]


def h_pair(ctx, la, lb):
    P = ctx.P
    pa = mk(ctx, "a", la)
    pb = mk(ctx, "b", lb)
    a = P.url.from_parts_uncached(*pa)
    b = P.url.from_parts_uncached(*pb)
    exp = all_of([sym_eq(pa[0], pb[0]), sym_eq(pa[1], pb[1]), sym_eq(norm_path(pa), norm_path(pb)), sym_eq(pa[3], pb[3]),
                  sym_eq(pa[4], pb[4])])
    r = call(lambda: a == b)
    ctx.check("eq-no-exception", r[0] == "ok" and isinstance(r[1], bool), r[1])
    eq = r[1]
    ctx.observe("eq", eq)
    ctx.check("eq-iff-components-equal", exp if eq else (exp == False))  # noqa: E712
    ne = call(lambda: a != b)
    ctx.check("ne-is-not-eq", ne[0] == "ok" and ne[1] == (not eq))
    if eq:
        ha = call(hash, a)
        hb = call(hash, b)
        ctx.check("equal-urls-equal-hash", ha[0] == "ok" and hb[0] == "ok" and (ha[1] == hb[1]))
    lt = call(lambda: a < b)
    gt = call(lambda: a > b)
    le = call(lambda: a <= b)
    ge = call(lambda: a >= b)
    ctx.check("ordering-no-exception", all(x[0] == "ok" and isinstance(x[1], bool) for x in (lt, gt, le, ge)))
    ctx.observe("order", (lt[1], gt[1], le[1], ge[1]))
    ctx.check("exactly-one-of-lt-eq-gt", (int(lt[1]) + int(eq) + int(gt[1])) == 1, (lt[1], eq, gt[1]))
    ctx.check("le-consistent", le[1] == (lt[1] or eq))
    ctx.check("ge-consistent", ge[1] == (gt[1] or eq))
    sym = call(lambda: b == a)
    ctx.check("eq-symmetric", sym[0] == "ok" and sym[1] == eq)


def h_ctor_pair(ctx, skeleton):
    """two URLs made by the constructor from texts that differ in one hole"""
    P = ctx.P
    ta = U.text(ctx, skeleton, prefix="a")
    tb = U.text(ctx, skeleton, prefix="b")
    ra = call(P.URL, ta)
    rb = call(P.URL, tb)
    if ra[0] != "ok" or rb[0] != "ok":
        return
    a, b = ra[1], rb[1]
    eq = call(lambda: a == b)[1]
    ctx.observe("eq", eq)
    same_str = sym_eq(str(a), str(b))
    # equal URLs print the same up to ''-vs-'/' (covered by h_pair); different strings => different URLs
    if not eq:
        ctx.check("unequal-urls-differ-in-a-component", sym_eq(a._val, b._val) == False)  # noqa: E712
    lt = call(lambda: a < b)[1]
    gt = call(lambda: a > b)[1]
    ctx.check("exactly-one-of-lt-eq-gt", (int(lt) + int(eq) + int(gt)) == 1, (lt, eq, gt))
    if eq:
        ctx.check("equal-urls-equal-hash", hash(a) == hash(b))


def h_ctor_order(ctx, skeleton):
    """for URLs made by the constructor, the ordering agrees with a comparison of freshly built twins (no stale memo)"""
    P = ctx.P
    ta = U.text(ctx, skeleton, prefix="a")
    tb = U.text(ctx, skeleton, prefix="b")
    ra = call(P.URL, ta)
    rb = call(P.URL, tb)
    ctx.observe("parse", (ra[0], rb[0]))
    if ra[0] != "ok" or rb[0] != "ok":
        return
    a, b = ra[1], rb[1]
    ta2 = P.url.from_parts_uncached(a._scheme, a._netloc, a._path, a._query, a._fragment)
    tb2 = P.url.from_parts_uncached(b._scheme, b._netloc, b._path, b._query, b._fragment)
    for nm, f in (("lt", lambda x, y: x < y), ("le", lambda x, y: x <= y), ("gt", lambda x, y: x > y), ("ge", lambda x, y: x >= y), ("eq", lambda x, y: x == y)):
        r1 = call(f, a, b)
        r2 = call(f, ta2, tb2)
        ctx.check("ordering-of-parsed-urls-equals-ordering-of-their-parts:" + nm, r1[0] == "ok" and r2[0] == "ok" and r1[1] == r2[1], nm)
    eq = call(lambda: a == b)[1]
    lt = call(lambda: a < b)[1]
    gt = call(lambda: a > b)[1]
    ctx.check("exactly-one-of-lt-eq-gt", (int(lt) + int(eq) + int(gt)) == 1, (lt, eq, gt))
    st = a.__getstate__()
    ctx.check("pickle-state-is-the-five-parts", sym_eq(tuple(st[0]), (a._scheme, a._netloc, a._path, a._query, a._fragment)))


def h_made(ctx, route, n):
    """URLs produced by modifiers / build keep ==, hash and ordering coherent with a freshly parsed equal URL"""
    P = ctx.P
    t = ctx.str("t", n, lo=97, hi=122)
    routes = {
        "origin": lambda: P.URL("http://h" + t + "/p?q#f").origin(), "with_path-empty": lambda: P.URL("http://h" + t + "/p").with_path(""),
        "parent": lambda: P.URL("http://h" + t + "/p").parent, "with_scheme": lambda: P.URL("x://h" + t).with_scheme("http"),
        "join": lambda: P.URL("http://a/b").join(P.URL("//h" + t)), "relative": lambda: P.URL("http://h/" + t + "?q").relative(),
        "build-encoded": lambda: P.URL.build(scheme="http", host="h" + t, encoded=True), "build-encoded-noauth": lambda: P.URL.build(path="", query_string=t, encoded=True),
        "build-encoded-path": lambda: P.URL.build(path="/" + t, encoded=True), "build": lambda: P.URL.build(scheme="http", host="h" + t),
        "with_query-none": lambda: P.URL("http://h" + t + "?a").with_query(None), "with_fragment-none": lambda: P.URL("//h" + t + "#f").with_fragment(None),
    }
    r = call(routes[route])
    ctx.observe(route, r[0])
    ctx.check("no-exception", r[0] == "ok", r[1])
    if r[0] != "ok":
        return
    a = r[1]
    others = [P.url.from_parts_uncached(a._scheme, a._netloc, a._path, a._query, a._fragment),
              P.url.from_parts_uncached(a._scheme, a._netloc, "/" if (a._netloc and not a._path) else a._path, a._query, a._fragment),
              P.url.from_parts_uncached(a._scheme, a._netloc, a._path, a._query + "x", a._fragment), P.URL("/?a=b"), P.URL("")]
    for i, b in enumerate(others):
        eq = call(lambda: a == b)[1]
        lt = call(lambda: a < b)[1]
        gt = call(lambda: a > b)[1]
        ctx.check("exactly-one-of-lt-eq-gt", (int(bool(lt)) + int(bool(eq)) + int(bool(gt))) == 1, (i, lt, eq, gt))
        if i < 2:
            ctx.check("equal-to-its-parts", eq)
            ctx.check("equal-urls-equal-hash", hash(a) == hash(b))


def h_foreign(ctx, n):
    P = ctx.P
    t = ctx.str("t", n)
    u = P.url.from_parts_uncached("", "", t, "", "")
    for other in (t, 1, None, (t,), b"x"):
        r = call(lambda: u == other)
        ctx.check("never-equal-to-non-URL", r[0] == "ok" and r[1] is False, r[1])
        r = call(lambda: u != other)
        ctx.check("always-unequal-to-non-URL", r[0] == "ok" and r[1] is True, r[1])


def families(tier):
    q = tier == "quick"
    fams = []
    each, tot = (1, 3) if q else (2, 4)
    shapes = [l for l in lengths(tot, 5) if all(k <= each for k in l)]
    for l in shapes:
        fams.append(Family("same-shape/%s" % "".join(map(str, l)), h_pair, dict(la=l, lb=l)))
    for n in (0, 1):
        for pl in (1, 2):
            fams.append(Family("empty-vs-path/netloc=%d/path=%d" % (n, pl), h_pair, dict(la=[0, n, 0, 0, 0], lb=[0, n, pl, 0, 0])))
            fams.append(Family("path-vs-empty/netloc=%d/path=%d" % (n, pl), h_pair, dict(la=[0, n, pl, 1, 0], lb=[0, n, 0, 1, 0])))
    mixed = [([0, 1, 1, 0, 0], [0, 1, 2, 0, 0]), ([1, 1, 0, 0, 0], [0, 1, 1, 0, 0]), ([0, 0, 1, 1, 0], [0, 0, 1, 0, 1]),
             ([0, 2, 0, 0, 0], [0, 1, 1, 0, 0])]
    for i, (la, lb) in enumerate(mixed):
        fams.append(Family("mixed-%d" % i, h_pair, dict(la=la, lb=lb)))
    for i, sk in enumerate([["http://h", ("in", "/a?#"), ("in", "/a?#")], ["//h:80", ("in", "/a")], ["http://h/a", ("ns",), "?x"]]):
        fams.append(Family("ctor-pair-%d" % i, h_ctor_pair, dict(skeleton=sk)))
    for i, sk in enumerate([["http://h/p?q#", ("ns",)], ["http://h/", ("ns",), "?", ("ns",)], ["http://u", ("in", "aA %~"), "@h/#%", ("in", "aAfF0"), ("in", "aAfF0")]]):
        fams.append(Family("ctor-order-%d" % i, h_ctor_order, dict(skeleton=sk)))
    for route in ("origin", "with_path-empty", "parent", "with_scheme", "join", "relative", "build-encoded", "build-encoded-noauth", "build-encoded-path",
                  "build", "with_query-none", "with_fragment-none"):
        fams.append(Family("made/%s" % route, h_made, dict(route=route, n=1)))
    fams.append(Family("foreign", h_foreign, dict(n=1)))
    return fams
