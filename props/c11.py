"""C11 -- every modifier changes only its own component."""
from common import Family, call, outcome, all_of, any_of, sym_eq
import urlkit as U

PROPERTY = "C11"
LEVEL = "model_checking"
BUDGET = {"quick": 240, "thorough": 2400}
BOUNDS = {"quick": "20 base URLs (reg-name / IPv4 / IPv6 / IPv6+zone hosts; no user, user, user+password, empty password, password only; no, default, "
                   "other port; empty path, query, fragment; six with a free hole) x every modifier x argument of 1 free code point (None where "
                   "accepted; symbolic integer for with_port)",
          "thorough": "arguments of <= 2 free code points on all 20 bases"}
ASSUMPTIONS = ["the canonicalised argument is computed with the matching yarl quoter (QUOTER, PATH_QUOTER, QUERY_QUOTER, FRAGMENT_QUOTER; covered by "
               "C01-C04)", "with_host arguments are ASCII non-IP text (IDNA / IP literals are cut and counted); IP hosts appear as concrete bases",
               "arguments exclude lone surrogates"]
MANIFEST_ENTRY = {
    "text": "Bounded model checking: for every base and modifier the solver chooses the argument; z3 decides on every path that the targeted raw "
            "component is the canonicalised argument and that all other raw components (incl. IPv6 brackets, explicit port, empty-vs-absent "
            "password) are identical to the base; path modifiers keep scheme/authority and clear/keep query and fragment as documented; origin() "
            "and relative() keep exactly their parts.",
    "note": "Bounds in evidence.coverage.bounds. Trusted: sx engine + models (concordance-validated per path), z3.",
    "technique": "symbolic execution of the instrumented yarl source with z3 (QF_BV): frame condition over the eight raw components",
}
NS = ("ns",)
RAW = U.RAW      # scheme, raw_user, raw_password, raw_host, explicit_port, raw_path, raw_query_string, raw_fragment
IDX = {n: i for i, n in enumerate(RAW)}


def frame(ctx, before, after, changed, tag):
    """all raw components except `changed` are identical"""
    for n in RAW:
        if n in changed:
            continue
        ctx.check("unchanged:%s:%s" % (tag, n), sym_eq(after[IDX[n]], before[IDX[n]]), n)


def h_modifier(ctx, base_sk, mname, arg_sk):
    P = ctx.P
    b = call(P.URL, U.text(ctx, base_sk, prefix="b"))
    ctx.observe("base", outcome(b))
    if b[0] != "ok":
        return
    u = b[1]
    before = U.raw_components(u)
    if before[0] != "ok":
        return
    before = before[1]
    hs_before = u.host_subcomponent
    Q = P.quoters
    if arg_sk is None:
        a = None
    else:
        a = U.text(ctx, arg_sk, prefix="a")
    has_netloc = bool(u.raw_authority)

    def run(f):
        r = call(f)
        ctx.observe(mname, outcome(r))
        return r

    if mname == "with_user":
        r = run(lambda: u.with_user(a))
        if r[0] != "ok":
            ctx.check("refusal-only-without-authority", r[1] == "ValueError" and not has_netloc, r[1])
            return
        after = U.raw_components(r[1])[1]
        if a is None:
            ctx.check("user-and-password-dropped", after[1] is None and after[2] is None)
            frame(ctx, before, after, ("raw_user", "raw_password"), mname)
        else:
            qa = Q.QUOTER(a)
            ctx.check("raw_user-is-quoted-argument", sym_eq(after[1], qa if qa else None))
            frame(ctx, before, after, ("raw_user",), mname)
    elif mname == "with_password":
        r = run(lambda: u.with_password(a))
        if r[0] != "ok":
            ctx.check("refusal-only-without-authority", r[1] == "ValueError" and not has_netloc, r[1])
            return
        after = U.raw_components(r[1])[1]
        ctx.check("raw_password-is-quoted-argument", sym_eq(after[2], None if a is None else Q.QUOTER(a)))
        frame(ctx, before, after, ("raw_password",), mname)
    elif mname == "with_host":
        h = "g" + a
        r = run(lambda: u.with_host(h))
        if r[0] != "ok":
            ctx.check("refusal-is-ValueError", r[0] == "excluded" or r[1] == "ValueError", r[1])
            return          # which hosts are valid is C16's subject
        after = U.raw_components(r[1])[1]
        ctx.check("raw_host-is-lowercased-argument", sym_eq(after[3], h.lower()))
        frame(ctx, before, after, ("raw_host",), mname)
    elif mname == "with_port":
        p = ctx.int("port", 0, 65535)
        r = run(lambda: u.with_port(p))
        if r[0] != "ok":
            ctx.check("refusal-only-without-authority", r[1] == "ValueError" and not has_netloc, r[1])
            return
        after = U.raw_components(r[1])[1]
        ctx.check("explicit_port-is-argument", sym_eq(after[4], p))
        frame(ctx, before, after, ("explicit_port",), mname)
        ctx.check("brackets-kept", sym_eq(r[1].host_subcomponent, hs_before))
        c = call(u.with_port, None)
        if c[0] == "ok":
            after = U.raw_components(c[1])[1]
            ctx.check("None-clears-port", after[4] is None)
            frame(ctx, before, after, ("explicit_port",), mname + "(None)")
    elif mname == "with_scheme":
        for sc in ("https", "ftp", "x", "HTTP"):
            r = call(u.with_scheme, sc)
            if r[0] != "ok":
                ctx.check("refusal-only-without-authority", r[1] == "ValueError" and not has_netloc, r[1])
                continue
            after = U.raw_components(r[1])[1]
            ctx.check("scheme-is-lowercased-argument", sym_eq(after[0], sc.lower()))
            frame(ctx, before, after, ("scheme",), mname)
            ctx.check("brackets-kept", sym_eq(r[1].host_subcomponent, hs_before))
        ctx.observe(mname, "done")
    elif mname == "with_fragment":
        r = run(lambda: u.with_fragment(a))
        ctx.check("no-exception", r[0] == "ok", r[1])
        after = U.raw_components(r[1])[1]
        ctx.check("raw_fragment-is-quoted-argument", sym_eq(after[7], "" if a is None else Q.FRAGMENT_QUOTER(a)))
        frame(ctx, before, after, ("raw_fragment",), mname)
    elif mname == "with_query":
        r = run(lambda: u.with_query(a))
        ctx.check("no-exception", r[0] == "ok", r[1])
        after = U.raw_components(r[1])[1]
        ctx.check("raw_query_string-is-quoted-argument", sym_eq(after[6], "" if a is None else Q.QUERY_QUOTER(a)))
        frame(ctx, before, after, ("raw_query_string",), mname)
    elif mname in ("update_query", "extend_query"):
        r = run(lambda: getattr(u, mname)({"k": a}))
        ctx.check("no-exception", r[0] == "ok", r[1])
        after = U.raw_components(r[1])[1]
        frame(ctx, before, after, ("raw_query_string",), mname)
    elif mname in ("with_path", "with_name", "with_suffix", "div", "joinpath", "parent"):
        for kq, kf in ((False, False), (True, True), (True, False)):
            if mname == "with_path":
                r = call(lambda: u.with_path("/" + a, keep_query=kq, keep_fragment=kf))
            elif mname == "with_name":
                r = call(lambda: u.with_name("n" + a, keep_query=kq, keep_fragment=kf))
            elif mname == "with_suffix":
                r = call(lambda: u.with_suffix("." + a, keep_query=kq, keep_fragment=kf))
            elif mname == "div":
                r = call(lambda: u / ("n" + a))
                kq = kf = False
            elif mname == "joinpath":
                r = call(lambda: u.joinpath("n" + a))
                kq = kf = False
            else:
                r = call(lambda: u.parent)
                kq = kf = False
            ctx.observe(mname + str((kq, kf)), outcome(r))
            if r[0] != "ok":
                ctx.check("only-ValueError", r[1] == "ValueError", r[1])
                continue
            after = U.raw_components(r[1])[1]
            frame(ctx, before, after, ("raw_path", "raw_query_string", "raw_fragment"), mname)
            ctx.check("brackets-kept", sym_eq(r[1].host_subcomponent, hs_before))
            ctx.check("query-kept-or-cleared", sym_eq(after[6], before[6] if kq else ""))
            ctx.check("fragment-kept-or-cleared", sym_eq(after[7], before[7] if kf else ""))
            if mname in ("div", "joinpath", "parent"):
                break
    elif mname == "origin":
        r = run(lambda: u.origin())
        if r[0] != "ok":
            ctx.check("refusal-only-without-authority-or-scheme", r[1] == "ValueError" and (not has_netloc or not before[0]), r[1])
            return
        after = U.raw_components(r[1])[1]
        frame(ctx, before, after, ("raw_user", "raw_password", "raw_path", "raw_query_string", "raw_fragment"), mname)
        ctx.check("origin-drops-userinfo-path-query-fragment", after[1] is None and after[2] is None and sym_eq(r[1]._path, "") and
                  sym_eq(after[6], "") and sym_eq(after[7], ""))
        ctx.check("brackets-kept", sym_eq(r[1].host_subcomponent, hs_before))
    elif mname == "relative":
        r = run(lambda: u.relative())
        if r[0] != "ok":
            ctx.check("refusal-only-without-authority", r[1] == "ValueError" and not has_netloc, r[1])
            return
        v = r[1]
        ctx.check("relative-keeps-only-path-query-fragment", sym_eq(v._val, ("", "", u._path, u._query, u._fragment)))
    else:
        raise ValueError(mname)


BASES = [
    ("plain", ["http://h/p?q=1#f"]), ("user", ["http://u@h:81/p"]), ("user-pass", ["http://u:p@h"]), ("empty-pass", ["http://u:@h/"]),
    ("pass-only", ["http://:p@h/x?y"]), ("ipv6-default-port", ["https://[::1]:443/p?q"]), ("ipv6-zone", ["http://[fe80::1%25eth0]:8/x#f"]),
    ("ipv4", ["http://1.2.3.4:80"]), ("noscheme", ["//h/p"]), ("other-scheme", ["x://u:p@h:0/"]), ("relative", ["/p?q#f"]),
    ("escaped", ["http://u%40:p%3A@h/a%2Fb?k=%26#%23"]), ("hole-user", ["http://", NS, ":p@h:8/p?q#f"]), ("hole-path", ["http://u:p@[::1]:8/", NS, "?q#f"]),
]
MODS = [("with_user", [NS]), ("with_user", None), ("with_password", [NS]), ("with_password", None), ("with_host", [("in", "abAZ-._~!$&'()*+,;=%<> /")]),
        ("with_port", []), ("with_scheme", []), ("with_fragment", [NS]), ("with_fragment", None), ("with_query", [NS]), ("with_query", None),
        ("update_query", [NS]), ("extend_query", [NS]), ("with_path", [NS]), ("with_name", [NS]), ("with_suffix", [NS]), ("div", [NS]),
        ("joinpath", [NS]), ("parent", []), ("origin", []), ("relative", [])]


def families(tier):
    q = tier == "quick"
    fams = []
    bases = list(BASES)
    # userinfo next to an explicit default port / a trailing-dot host; a name that already has a suffix (third seeding round)
    bases += [("user-default-port-suffix", ["https://u:p@h:443/d/n.x?q#f"]), ("user-trailing-dot-host", ["http://u@h.:81/n.x#f"])]
    if True:  # the four hole bases were thorough-only until the third seeding round; arg1 forms are cheap enough for every change
        bases += [("hole-pass", ["http://u:", NS, "@h/"]), ("hole-query", ["http://h/p?", NS, "=1#f"]), ("hole-frag", ["http://h/p#", NS]),
                  ("hole-host", ["http://u@g", ("in", "abcAB-._~"), ":1/"])]
    for bn, bsk in bases:
        for mn, ask in MODS:
            if ask is not None and len(ask) and not q:
                fams.append(Family("%s/%s/arg2" % (bn, mn), h_modifier, dict(base_sk=bsk, mname=mn, arg_sk=ask + ask)))
            fams.append(Family("%s/%s/%s" % (bn, mn, "None" if ask is None else "arg1" if ask else "noarg"), h_modifier,
                               dict(base_sk=bsk, mname=mn, arg_sk=ask)))
    return fams
