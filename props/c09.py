"""C09 -- eager and lazy component computation agree; pickling is lossless."""
import copy
import pickle
from common import Family, call, outcome, EXCLUDED, all_of, any_of, sym_eq
import urlkit as U
import oracles as O

PROPERTY = "C09"
LEVEL = "model_checking"
BUDGET = {"quick": 240, "thorough": 2400}
BOUNDS = {"quick": "URL('x://' + netloc + '/p?q#f') for all netloc texts of <= 3 code points and authority skeletons with <= 3 holes; the same in "
                   "front of an empty path and of a bare query (netloc texts <= 2, three delimiter skeletons); URLs from "
                   "build() and from each modifier with a 1-code-point argument; every accessor (by introspection), ==, hash, str",
          "thorough": "netloc texts of <= 4 code points; skeletons with <= 4 holes; 2-code-point modifier arguments"}
ASSUMPTIONS = ["the pickle protocol is executed by hand on symbolic state (__getstate__ -> URL.__new__(URL) -> __setstate__); the real "
               "pickle.loads(pickle.dumps()), copy.copy and copy.deepcopy run on every path witness (concordance)",
               "symbolic host text that looks like an IP literal, non-ASCII authority text (NFKC) and IDNA of symbolic hosts are cut and counted",
               "port texts that only Python's int() accepts are cut and counted"]
MANIFEST_ENTRY = {
    "text": "Bounded model checking: a URL whose cache was pre-filled by the parser is compared with a cache-free twin built from its five parts and "
            "with the result of the hand-run pickle protocol; z3 decides on every path that every accessor, ==, the hash key and str() agree "
            "(value or exception type).",
    "note": "Bounds in evidence.coverage.bounds. Trusted: sx engine + models (concordance-validated per path, incl. real pickle/copy/deepcopy), z3.",
    "technique": "symbolic execution of the instrumented yarl source with z3 (QF_BV): eager object vs cache-free twin vs hand-run pickle protocol",
}
NSLOTS = 8


def same(a, b):
    """outcomes agree: both values equal, or both the same exception type"""
    if a[0] != b[0]:
        return False
    if a[0] == "exc":
        return a[1] == b[1]
    x, y = a[1], b[1]
    P_URL = type(x).__name__ == "URL" and type(y).__name__ == "URL"
    if P_URL:
        return sym_eq(x._val, y._val)
    if type(x).__name__ in ("MultiDictProxy", "MultiDict") or type(y).__name__ in ("MultiDictProxy", "MultiDict"):
        return sym_eq(list(x.items()), list(y.items()))
    return sym_eq(x, y)


def compare(ctx, u, slot, text=None):
    P = ctx.P
    ctx.note("stored_netloc", u._netloc)
    if text is not None:
        ctx.note("authority_text", O.rfc_split(text)[1])
    twin = P.url.from_parts_uncached(*u._val)
    state = u.__getstate__()
    pk = P.URL.__new__(P.URL)
    pk.__setstate__(state)
    names, methods = U.discover(P)
    extra = [(str, "str"), (hash, "hash"), (bool, "bool")]
    todo = [(n, None) for n in names] + [(nm, fn) for fn, nm in extra]
    todo = todo[slot::NSLOTS]
    todo = [t for t in todo if t[0] not in U.IDNA_LAST] + [t for t in todo if t[0] in U.IDNA_LAST]
    for name, fn in todo:
        outs = []
        for obj in (u, twin, pk):
            if fn is not None:
                outs.append(call(fn, obj))
            elif name in methods:
                outs.append(call(lambda: getattr(obj, name)()))
            else:
                outs.append(call(lambda: getattr(obj, name)))
        if any(o[0] == "excluded" for o in outs):
            ctx.observe(name, EXCLUDED)
            continue
        v0 = outs[0][1]
        ctx.observe(name, v0 if outs[0][0] == "exc" else (v0 if name != "hash" and (isinstance(v0, (type(None), bool, int, str, tuple)) or hasattr(v0, "e")) else "ok"))
        ctx.check("eager-equals-lazy:" + name, same(outs[0], outs[1]), (outs[0][:2], outs[1][:2]))
        ctx.check("eager-equals-unpickled:" + name, same(outs[0], outs[2]), (outs[0][:2], outs[2][:2]))
    if slot == 0:
        ctx.check("equal-to-unpickled", u == pk)
        ctx.check("equal-to-twin", u == twin)
    if not ctx.sym:
        # the real protocols, on the real build
        with P.activate():
            for nm, mk in (("pickle", lambda: pickle.loads(pickle.dumps(u))), ("copy", lambda: copy.copy(u)), ("deepcopy", lambda: copy.deepcopy(u))):
                v = mk()
                ok = call(lambda: v == u and hash(v) == hash(u) and str(v) == str(u) and v._val == u._val)
                eager = call(lambda: (str(u), hash(u)))
                if eager[0] == "ok" and any(name == "str" for name, fn in todo):
                    ctx.check("eager-equals-unpickled:str", ok[0] == "ok" and ok[1] is True, (nm, ok[:2]))
                for name, fn in todo:
                    if fn is not None or name in methods:
                        continue
                    ctx.check("eager-equals-unpickled:" + name, same(call(lambda: getattr(u, name)), call(lambda: getattr(v, name))), nm)


def h_netloc(ctx, skeleton, slot, scheme="x", tail="/p?q#f"):
    P = ctx.P
    nl = U.text(ctx, skeleton)
    ctx.assume(all_of([c not in "/?#\t\r\n" for c in nl]) if len(nl) else True, "hole is authority text")
    r = call(P.URL, scheme + "://" + nl + tail)
    ctx.observe("URL", outcome(r))
    if r[0] != "ok":
        return
    compare(ctx, r[1], slot, scheme + "://" + nl + tail)


def h_plain(ctx, text, slot):
    P = ctx.P
    r = call(P.URL, text)
    if r[0] == "ok":
        compare(ctx, r[1], slot, text)
    ctx.observe("URL", r[0])


def h_modified(ctx, base, mname, n, slot):
    P = ctx.P
    a = ctx.str("a", n, no_surrogates=True)
    b = P.URL(base)
    ops = {
        "with_user": lambda: b.with_user(a), "with_password": lambda: b.with_password(a), "with_host": lambda: b.with_host("g" + a),
        "with_path": lambda: b.with_path(a), "with_query": lambda: b.with_query(a), "with_fragment": lambda: b.with_fragment(a),
        "with_name": lambda: b.with_name(a), "div": lambda: b / a, "build": lambda: P.URL.build(scheme="http", host="h", user=a, password="p", path="/" + a, query_string="k=v", fragment=a),
        "build-authority": lambda: P.URL.build(scheme="x", authority="u" + a + "@h:1"),
        "build-ipv6": lambda: P.URL.build(scheme="http", host="::1", port=8080, path="/" + a),
        "build-ipv6-user": lambda: P.URL.build(scheme="http", host="fe80::1%eth0", user="u" + a, path="/"),
    }
    r = call(ops[mname])
    ctx.observe(mname, outcome(r))
    if r[0] == "ok":
        compare(ctx, r[1], slot)


def families(tier):
    q = tier == "quick"
    fams = []
    NS = ("ns",)
    sks = [("free1", [NS]), ("free2", [NS, NS]), ("free3", [NS, NS, NS]),
           ("userinfo", ["u", NS, "p", NS, "h"]), ("delims", [("in", "u:@"), ("in", "p:@"), ("in", "h:@"), ":", ("in", "018")]), ("user-port", ["u", ("in", ":@a"), "@h:", ("in", "0189"), ("in", "0189/")]),
           ("port", ["h", NS, ("in", "0189:")]), ("bracket", ["[::1]", NS, NS]), ("empty-host", [("in", "u:@"), ("in", ":@"), ("in", ":80")])]
    if not q:
        sks += [("free4", [NS, NS, NS, NS]), ("delims5", [("in", "u:@["), ("in", "p:@]"), ("in", "h:@"), ("in", ":@1"), ("in", "18:")])]
    for nm, sk in sks:
        for slot in range(NSLOTS):
            fams.append(Family("netloc/%s/accessors-%d" % (nm, slot), h_netloc, dict(skeleton=sk, slot=slot)))
    for nm, sk in sks[:4]:
        fams.append(Family("netloc-http/%s" % nm, h_netloc, dict(skeleton=sk, slot=0, scheme="http")))
    # the same authorities in front of an empty path (the '/' default is decided by the authority) and of a bare query
    for nm, sk in sks:
        if nm in ("free1", "free2", "delims", "user-port", "empty-host") or not q:
            for tn, tail in (("nopath", ""), ("query-only", "?q")):
                for slot in range(NSLOTS):
                    fams.append(Family("netloc-%s/%s/accessors-%d" % (tn, nm, slot), h_netloc, dict(skeleton=sk, slot=slot, tail=tail)))
    plain = ["", "/", "?q", "#f", "mailto:a@b", "http://h", "http://h:80", "//h?q", "http://[::1]:8/p", "http://ex%41mple.com/%7e?%61=%3D#%2f",
             "x://:80", "//u@", "//@", "x://u:p@:1/a", "//[x:x:%2FA]", "http://[v1.x]/p", "http://[::1%25eth0]:8/",
             "mailto:", "about:#top", "//h", "http://ＥＸＡＭＰＬＥ.com/p", "http://exa\u00admple.de/", "http://bücher.example/ü?ü#ü"]
    for i, t in enumerate(plain):
        for slot in range(NSLOTS):
            fams.append(Family("plain-%d/accessors-%d" % (i, slot), h_plain, dict(text=t, slot=slot)))
    for mname in ("with_user", "with_password", "with_host", "with_path", "with_query", "with_fragment", "with_name", "div", "build", "build-authority", "build-ipv6", "build-ipv6-user"):
        for slot in range(NSLOTS):
            if q and slot not in (0, 3, 5):
                continue
            fams.append(Family("modified/%s/accessors-%d" % (mname, slot), h_modified,
                               dict(base="http://u:p@h:81/a/b?x=1#f", mname=mname, n=1 if q else 2, slot=slot)))
    return fams
