"""URL-level families shared by C01-C04 and C06: every entry point that accepts text."""
from common import Family, call, outcome, EXCLUDED, all_of, any_of, sym_eq
import kernel as K
import oracles as O
import urlkit as U

NS = ("ns",)
HEX = ("hex",)

# entry point -> (function(P, t) -> URL, component the text lands in, whether the text is taken as decoded (not requoted))
ENTRIES = {
    "ctor-user": (lambda P, t: P.URL("http://" + t + ":pw@h/p"), "user", False),
    "ctor-password": (lambda P, t: P.URL("http://us:" + t + "@h/p"), "password", False),
    "ctor-user-defport": (lambda P, t: P.URL("http://" + t + ":p%40w@h:80/p"), "user", False),
    "ctor-password-defport": (lambda P, t: P.URL("https://u%3As:" + t + "@[::1]:443/p"), "password", False),
    "with_user-defport": (lambda P, t: P.URL("ws://a:b%2540c@h:80/p").with_user(t), "user", True),
    "ctor-path": (lambda P, t: P.URL("http://h/a/" + t + "?q#f"), "path", False),
    "ctor-path-noauth": (lambda P, t: P.URL("/a/" + t), "path", False),
    "ctor-query": (lambda P, t: P.URL("http://h/p?" + t + "#f"), "query", False),
    "ctor-fragment": (lambda P, t: P.URL("http://h/p?q#" + t), "fragment", False),
    "build-user": (lambda P, t: P.URL.build(scheme="http", host="h", user=t, password="pw"), "user", True),
    "build-password": (lambda P, t: P.URL.build(scheme="http", host="h", user="us", password=t), "password", True),
    "build-password-nouser": (lambda P, t: P.URL.build(scheme="http", host="h", password=t), "password", True),
    "build-path": (lambda P, t: P.URL.build(scheme="http", host="h", path="/" + t), "path", True),
    "build-query_string": (lambda P, t: P.URL.build(scheme="http", host="h", query_string=t), "query", True),
    "build-query-dict": (lambda P, t: P.URL.build(scheme="http", host="h", query=[("k", t)]), "qvalue", True),
    "build-fragment": (lambda P, t: P.URL.build(scheme="http", host="h", fragment=t), "fragment", True),
    "with_user": (lambda P, t: P.URL("http://a:b%2540c@h:81/p").with_user(t), "user", True),
    "with_password": (lambda P, t: P.URL("http://a%3A:b@h/p").with_password(t), "password", True),
    "with_path": (lambda P, t: P.URL("http://h/x?q#f").with_path("/" + t), "path", True),
    "with_path-noauth": (lambda P, t: P.URL("/x/y?q#f").with_path("/" + t), "path-noauth", True),
    "build-path-noauth": (lambda P, t: P.URL.build(path="/" + t), "path-noauth", True),
    "with_name": (lambda P, t: P.URL("http://h/d%2Fe/x").with_name(t), "name", True),
    "with_suffix": (lambda P, t: P.URL("http://h/d/x%20y.t").with_suffix("." + t), "suffix", True),
    "with_fragment": (lambda P, t: P.URL("http://h/p?q").with_fragment(t), "fragment", True),
    "with_query-str": (lambda P, t: P.URL("http://h/p#f").with_query(t), "query", True),
    "with_query-pairs": (lambda P, t: P.URL("http://h/p#f").with_query([(t, "v"), ("k", t)]), "qpairs", True),
    "extend_query": (lambda P, t: P.URL("http://h/p?a=%26").extend_query([("k", t)]), "qvalue-last", True),
    "update_query": (lambda P, t: P.URL("http://h/p?a=%26&k=0").update_query([("k", t)]), "qvalue-last", True),
    "div": (lambda P, t: P.URL("http://h/d%2Fe/") / t, "child", True),
    "joinpath": (lambda P, t: P.URL("http://h/d%2Fe").joinpath(t), "child", True),
    "join-ref": (lambda P, t: P.URL("http://h/b%2Fc/d%3Fe/f").join(P.URL(t)), "joinref", False),
}
SKELS = {"dots": [("in", "./a"), ("in", "./a"), ("in", "./a")], "free1": [NS], "free2": [NS, NS], "esc": ["%", HEX, HEX], "esc+1": ["%", HEX, HEX, NS], "1+esc": [NS, "%", HEX, HEX], "free3": [NS, NS, NS]}
COMP_OF = {"user": "userinfo", "password": "userinfo", "path": "path", "query": "query", "fragment": "fragment"}


def no_dot_escape(t):
    """no '%2E' / '%2e' in t (an escape that decodes to a dot makes a dot segment: C15's subject)"""
    conds = []
    for i in range(len(t) - 2):
        conds.append(all_of([t[i] == "%", t[i + 1] == "2", t[i + 2] in "eE"]) == False)  # noqa: E712
    return all_of(conds)


def make(ctx, entry, skel):
    P = ctx.P
    f, where, decoded = ENTRIES[entry]
    t = U.text(ctx, SKELS[skel], prefix="t")
    if where in ("path", "name", "suffix", "child", "joinref") and not decoded:
        ctx.assume(all_of([c not in "?#\t\r\n" for c in t]), "hole is path text")
    if where == "user" and not decoded:
        ctx.assume(all_of([c not in "/?#@:[]\t\r\n" for c in t]) and t[:1] not in O.C0_SPACE, "hole is user text")
    if where == "password" and not decoded:
        ctx.assume(all_of([c not in "/?#@[]\t\r\n" for c in t]), "hole is password text")
    if where == "query" and not decoded:
        ctx.assume(all_of([c not in "#\t\r\n" for c in t]), "hole is query text")
    if where == "fragment" and not decoded:
        ctx.assume(all_of([c not in "\t\r\n" for c in t]), "hole is fragment text")
    if where == "joinref":
        ctx.assume(all_of([c not in ":?#\t\r\n" for c in t] + [t[:1] not in O.C0_SPACE, t[:2] != "//"]), "reference is a relative path")
    r = call(f, P, t)
    ctx.observe(entry, outcome(r))
    return t, r, where, decoded


# ---------------------------------------------------------------- C01
def wellformed_url(ctx, u):
    for attr, comp in (("raw_user", "userinfo"), ("raw_password", "userinfo"), ("raw_path", "path"), ("raw_query_string", "query"),
                       ("raw_fragment", "fragment")):
        v = getattr(u, attr)
        if v is None:
            continue
        ctx.check("wellformed:" + attr, K.wellformed(v, comp))
    s = call(str, u)
    ctx.check("str-no-exception", s[0] == "ok", s[1])
    ctx.check("str-is-ascii", s[1].isascii() if len(s[1]) else True)
    # the whole string: only RFC 3986 characters, every '%' starts an upper-case escape (no zone ids in these families)
    ctx.check("str-wellformed", K.wellformed(s[1], "url"))
    b = call(bytes, u)
    ctx.check("bytes-no-exception", b[0] == "ok", b[1])


def h_c01(ctx, entry, skel):
    t, r, where, decoded = make(ctx, entry, skel)
    if r[0] != "ok":
        ctx.check("refusal-is-ValueError", r[0] == "excluded" or r[1] == "ValueError", r[1])
        return
    ctx.observe("str", str(r[1]))
    wellformed_url(ctx, r[1])


# ---------------------------------------------------------------- C02
def h_c02(ctx, entry, skel):
    """decoded bytes and delimiter status of the component the text lands in equal those of the supplied text; the
    other components of the base keep their tokens"""
    t, r, where, decoded = make(ctx, entry, skel)
    if r[0] != "ok":
        ctx.check("refusal-is-ValueError", r[0] == "excluded" or r[1] == "ValueError", r[1])
        return
    u = r[1]
    esc = not decoded
    if where in ("user", "password"):
        got = u.raw_user if where == "user" else u.raw_password
        ctx.observe("raw", got)
        ctx.check("same-tokens:" + where, sym_eq(O.pct_tokens(got or "", "", False, True), O.pct_tokens(t, "", False, esc)))
        if entry.startswith("with_user"):
            ctx.check("password-kept", sym_eq(u.raw_password, "b%2540c"))
        if entry == "with_password":
            ctx.check("user-kept", sym_eq(u.raw_user, "a%3A"))
    elif where == "path-noauth":
        ctx.observe("raw", u.raw_path)
        ctx.check("same-tokens:path", sym_eq(O.pct_tokens(u.raw_path, "/", False, True), O.pct_tokens("/" + t, "/", False, esc)))
        ctx.check("same-number-of-segments", len(u.raw_path.split("/")) == len(("/" + t).split("/")))
    elif where == "path":
        ctx.assume(all_of(["." not in t, no_dot_escape(t) if esc else True]), "no dot segments, literal or escaped (C15)")
        pre = "/a/" if entry.startswith("ctor") else "/"
        ctx.observe("raw", u.raw_path)
        ctx.check("same-tokens:path", sym_eq(O.pct_tokens(u.raw_path, "/", False, True), O.pct_tokens(pre + t, "/", False, esc)))
        ctx.check("same-number-of-segments", len(u.raw_path.split("/")) == len((pre + t).split("/")))
    elif where == "query":
        ctx.observe("raw", u.raw_query_string)
        ctx.check("same-tokens:query", sym_eq(O.pct_tokens(u.raw_query_string, "=&;", True, True), O.pct_tokens(t, "=&;", True, esc)))
    elif where == "fragment":
        ctx.observe("raw", u.raw_fragment)
        ctx.check("same-tokens:fragment", sym_eq(O.pct_tokens(u.raw_fragment, "", False, True), O.pct_tokens(t, "", False, esc)))
    elif where in ("qvalue", "qvalue-last", "qpairs"):
        raw = u.raw_query_string
        ctx.observe("raw", raw)
        pairs = raw.split("&")
        npairs = {"qvalue": 1, "qpairs": 2}.get(where, 2)
        ctx.check("same-number-of-pairs", len(pairs) == npairs, len(pairs))
        last = pairs[-1]
        ctx.check("one-key-one-value", len(last.split("=")) == 2)
        val = last.split("=")[1] if len(last.split("=")) == 2 else ""
        ctx.check("value-decodes-to-supplied-text", sym_eq(O.pct_tokens(val, "", True, True), O.pct_tokens(t, "", False, False)))
        if where == "qvalue-last":
            ctx.check("existing-pair-kept", sym_eq(pairs[0], "a=%26"))
    elif where in ("name", "child", "suffix"):
        ctx.assume(all_of(["/" not in t, "." not in t]), "a single segment without dots")
        parts = u.raw_path.split("/")
        ctx.observe("raw", u.raw_path)
        exp_n = {"with_name": 3, "with_suffix": 3, "div": 3, "joinpath": 3}[entry]
        ctx.check("same-number-of-segments", len(parts) == exp_n, len(parts))
        ctx.check("encoded-slash-in-base-segment-kept", sym_eq(parts[1], "d%2Fe") if entry != "with_suffix" else sym_eq(parts[1], "d"))
        if where != "suffix":
            ctx.check("new-segment-decodes-to-supplied-text", sym_eq(O.pct_tokens(parts[-1], "", False, True), O.pct_tokens(t, "", False, False)))
    elif where == "joinref":
        ctx.assume(all_of(["." not in t, no_dot_escape(t)]), "no dot segments, literal or escaped (C15)")
        ctx.observe("raw", u.raw_path)
        q = ctx.P.quoters.PATH_REQUOTER(t)
        if q[:1] == "/":
            exp = q
        elif q:
            exp = "/b%2Fc/d%3Fe/" + q
        else:
            exp = "/b%2Fc/d%3Fe/f"
        ctx.check("base-segments-spliced-encoded", sym_eq(u.raw_path, exp))


# ---------------------------------------------------------------- C06
def h_c06(ctx, entry, skel):
    """supplied decoded text reads back unchanged from the matching accessor"""
    t, r, where, decoded = make(ctx, entry, skel)
    if not decoded:
        return
    if r[0] != "ok":
        ctx.check("refusal-is-ValueError", r[0] == "excluded" or r[1] == "ValueError", r[1])
        return
    u = r[1]
    if where == "user":
        ctx.check("user-reads-back", sym_eq(u.user, t if t else None))
    elif where == "password":
        ctx.check("password-reads-back", sym_eq(u.password, t))
    elif where == "path":
        ctx.assume("." not in t, "no dot segments under an authority (excepted by the statement)")
        ctx.check("path-reads-back", sym_eq(u.path, "/" + t))
        ctx.check("parts-are-decoded-raw_parts", sym_eq(tuple(u.parts), tuple(["/"] + ("/" + t).split("/")[1:])))
    elif where == "path-noauth":
        # without an authority dot segments are kept verbatim: the supplied text reads back as is
        ctx.check("path-reads-back", sym_eq(u.path, "/" + t))
    elif where == "fragment":
        ctx.check("fragment-reads-back", sym_eq(u.fragment, t))
    elif where == "query":
        ctx.assume(all_of([c not in "+=&;" for c in t]), "query string without pair delimiters (structured text is C12's)")
        ctx.check("query_string-reads-back", sym_eq(u.query_string, t))
    elif where in ("qvalue", "qvalue-last"):
        items = [(k, v) for k, v in u.query.items()]
        ctx.check("query-value-reads-back", sym_eq(items[-1], ("k", t)))
    elif where == "qpairs":
        items = [(k, v) for k, v in u.query.items()]
        ctx.check("query-pairs-read-back", sym_eq(items, [(t, "v"), ("k", t)]))
    elif where == "name":
        rr = call(lambda: u.name)
        ctx.check("name-reads-back", rr[0] == "ok" and sym_eq(rr[1], t))
    elif where == "child":
        ctx.assume(all_of(["/" not in t, "." not in t, len(t) > 0]), "a single non-empty segment without dots")
        ctx.check("name-reads-back", sym_eq(u.name, t))
    elif where == "suffix":
        ctx.assume(all_of(["/" not in t, "." not in t, len(t) > 0]), "a plain suffix")
        ctx.check("suffix-reads-back", sym_eq(u.suffix, "." + t))
        ctx.check("stem-decoded-once", sym_eq(u.name, "x y." + t))


def families(harness, tier, backends=("py", "c"), entries=None, decoded_only=False):
    q = tier == "quick"
    fams = []
    skels = ["free1", "free2", "esc", "esc+1"] if q else [k for k in SKELS if k != "dots"]
    for e in ENTRIES:
        if entries is not None and e not in entries:
            continue
        if decoded_only and not ENTRIES[e][2]:
            continue
        for sk in skels + (["dots"] if ENTRIES[e][1] == "path-noauth" else []):
            if q and sk in ("free2", "esc+1") and e.startswith(("with_query-pairs", "extend", "update", "build-query-dict")):
                continue
            bk = backends if (not q or sk in ("free1", "esc")) else ("py",)
            fams.append(Family("url/%s/%s" % (e, sk), harness, dict(entry=e, skel=sk), backends=bk))
    return fams
