"""C13 -- path operations compose like a path algebra."""
from common import Family, call, outcome, all_of, any_of, sym_eq
import urlkit as U

PROPERTY = "C13"
LEVEL = "model_checking"
BUDGET = {"quick": 240, "thorough": 2400}
BOUNDS = {"quick": "12 base shapes (absolute / rooted / rootless / empty path, trailing slash, empty and escaped segments with symbolic hex digits, "
                   "one free hole) x segment arguments of <= 2 free code points (no lone surrogates); "
                   "spellings also with multi-segment arguments a in a{/,a}^2, c in c{/,a}",
          "thorough": "segment arguments of <= 3 free code points (<= 2 on the bases that have free holes themselves)"}
ASSUMPTIONS = ["segment arguments exclude lone surrogates (dropped by the quoter) ", "base paths and arguments longer than the bound are outside the claim",
               "the clause 'u / s has name s' is asserted for s without '/', not a dot segment and not empty, as the statement says",
               "alternative spellings joinpath(a, b) / joinpath(a).joinpath(b) / u / 'a/b' are compared for non-empty a, b that do not start with '/'; "
               "when a ends with '/', that slash is the separator (u / (a + b)), since joinpath documents that the trailing empty segment of a "
               "non-final argument is not kept"]
MANIFEST_ENTRY = {
    "text": "Bounded model checking of raw_parts/name/suffix(es)/parent, /, joinpath, with_name and with_suffix: the solver chooses segment text and "
            "escape digits; z3 decides on every path that raw_parts re-compose to raw_path, alternative spellings agree, with_name/with_suffix change "
            "only the last segment and splice the untouched raw text byte-for-byte.",
    "note": "Bounds in evidence.coverage.bounds. Trusted: sx engine + models (concordance-validated per path), z3; PATH_QUOTER (covered by C01-C04) canonicalises the new text.",
    "technique": "symbolic execution of the instrumented yarl source with z3 (QF_BV): algebraic identities between alternative spellings and raw splices",
}
HEX = ("hex",)
NS = ("ns",)


def recompose(ctx, u, tag):
    rp = u.raw_parts
    path = u.raw_path
    if len(rp) and sym_eq(rp[0], "/") is True:
        ctx.check("raw_parts-recompose:" + tag, sym_eq("/" + "/".join(rp[1:]), path))
    else:
        ctx.check("raw_parts-recompose:" + tag, sym_eq("/".join(rp), path))
    ctx.check("name-is-last-part:" + tag, sym_eq(u.raw_name, rp[-1] if (len(rp) > 1 or not u.raw_authority and not (len(rp) == 1 and sym_eq(rp[0], "/") is True)) else (rp[-1] if not u.raw_authority else "")))
    nm = u.raw_name
    sfx = u.raw_suffix
    ctx.check("suffix-is-tail-of-name:" + tag, nm.endswith(sfx) if sfx else True)
    sfxs = u.raw_suffixes
    ctx.check("suffixes-are-tail-of-name:" + tag, nm.endswith("".join(sfxs)) if sfxs else True)
    if sfxs:
        ctx.check("suffix-is-last-suffix:" + tag, sym_eq(sfx, sfxs[-1]))


def h_child(ctx, base_sk, seg_sk):
    P = ctx.P
    b = call(P.URL, U.text(ctx, base_sk, prefix="b"))
    if b[0] != "ok":
        ctx.observe("base", outcome(b))
        return
    u = b[1]
    s = U.text(ctx, seg_sk, prefix="s")
    recompose(ctx, u, "base")
    r1 = call(lambda: u / s)
    r2 = call(u.joinpath, s)
    ctx.observe("child", (outcome(r1), outcome(r2)))
    ctx.check("div-equals-joinpath", r1[0] == r2[0] and (r1[0] != "ok" or sym_eq(r1[1]._val, r2[1]._val)))
    if r1[0] != "ok":
        ctx.check("refusal-only-for-leading-slash", r1[1] == "ValueError" and s[:1] == "/", r1[1])
        return
    c = r1[1]
    ctx.observe("child-path", c.raw_path)
    recompose(ctx, c, "child")
    ctx.check("keeps-scheme-and-authority", all_of([sym_eq(c.scheme, u.scheme), sym_eq(c.raw_authority, u.raw_authority)]))
    ctx.check("clears-query-and-fragment", all_of([sym_eq(c.raw_query_string, ""), sym_eq(c.raw_fragment, "")]))
    q = P.quoters.PATH_QUOTER(s)
    plain = all_of(["/" not in s, s != ".", s != "..", len(s) > 0]) if len(s) else False
    if plain is True or (plain is not False and ctx.sym and bool(plain)) or (plain is not False and not ctx.sym and plain):
        ctx.check("name-is-the-new-segment", sym_eq(c.raw_name, q))
        ctx.check("decoded-name-reads-back", sym_eq(c.name, s))
        up = tuple(u.raw_parts)
        if len(up) > 1 and sym_eq(up[-1], "") is True:
            up = up[:-1]
        if not up or (len(up) == 1 and sym_eq(up[0], "") is True):
            up = ("/",) if u.raw_authority else ()
        ctx.check("parent-parts-are-base-parts", sym_eq(tuple(c.parent.raw_parts) if up else (), up) if up else True)


def h_spellings(ctx, base_sk, n, a_sk=None, c_sk=None):
    P = ctx.P
    b = call(P.URL, U.text(ctx, base_sk, prefix="b"))
    if b[0] != "ok":
        ctx.observe("base", outcome(b))
        return
    u = b[1]
    if a_sk is None:
        a = ctx.str("a", n, no_surrogates=True)
        c = ctx.str("c", n, no_surrogates=True)
    else:
        # multi-segment arguments: empty segments inside / at the end of a non-final argument
        a = U.text(ctx, a_sk, prefix="a")
        c = U.text(ctx, c_sk, prefix="c")
    ctx.assume(all_of([a[:1] != "/", c[:1] != "/"]), "segments do not start with '/'")
    r1 = call(u.joinpath, a, c)
    r2 = call(lambda: u.joinpath(a).joinpath(c))
    # one trailing '/' of a non-final argument is the separator itself (documented: the trailing empty segment is not kept)
    r3 = call(lambda: u / (a + c if a[-1:] == "/" else a + "/" + c))
    ctx.observe("spellings", (outcome(r1), outcome(r2), outcome(r3)))
    ctx.check("no-exception", r1[0] == "ok" and r2[0] == "ok" and r3[0] == "ok", (r1[1], r2[1], r3[1]))
    ctx.observe("paths", (r1[1].raw_path, r2[1].raw_path, r3[1].raw_path))
    ctx.note("a", a)
    ctx.note("c", c)
    ctx.check("joinpath(a,b)==joinpath(a).joinpath(b)", sym_eq(r1[1]._val, r2[1]._val))
    ctx.check("joinpath(a,b)==div(a/b)", sym_eq(r1[1]._val, r3[1]._val))


def h_with_name(ctx, base_sk, n):
    P = ctx.P
    b = call(P.URL, U.text(ctx, base_sk, prefix="b"))
    if b[0] != "ok":
        ctx.observe("base", outcome(b))
        return
    u = b[1]
    nm = ctx.str("n", n, no_surrogates=True)
    r = call(u.with_name, nm)
    ctx.observe("with_name", outcome(r))
    q = P.quoters.PATH_QUOTER(nm)
    if r[0] != "ok":
        ok = any_of(["/" in nm, q == ".", q == ".."])
        ctx.check("refusal-only-for-slash-or-dot-segment", r[1] == "ValueError" and ok, r[1])
        return
    c = r[1]
    ctx.observe("path", c.raw_path)
    ctx.check("name-is-the-new-name", sym_eq(c.raw_name, q))
    ctx.check("decoded-name-reads-back", sym_eq(c.name, nm))
    ctx.check("keeps-scheme-and-authority", all_of([sym_eq(c.scheme, u.scheme), sym_eq(c.raw_authority, u.raw_authority)]))
    ctx.check("clears-query-and-fragment", all_of([sym_eq(c.raw_query_string, ""), sym_eq(c.raw_fragment, "")]))
    up, cp = tuple(u.raw_parts), tuple(c.raw_parts)
    if len(up) > 1 or (len(up) == 1 and not u.raw_authority and sym_eq(up[0], "/") is not True):
        ctx.check("same-parent-segments", sym_eq(cp[:-1], up[:-1]))
    recompose(ctx, c, "result")


def h_with_suffix(ctx, base_sk, sfx_sk):
    P = ctx.P
    b = call(P.URL, U.text(ctx, base_sk, prefix="b"))
    if b[0] != "ok":
        ctx.observe("base", outcome(b))
        return
    u = b[1]
    x = U.text(ctx, sfx_sk, prefix="x")
    raw_name = u.raw_name
    old = u.raw_suffix
    r = call(u.with_suffix, x)
    ctx.observe("with_suffix", outcome(r))
    if r[0] != "ok":
        bad_sfx = any_of([all_of([len(x) > 0, x[:1] != "."]), x == ".", "/" in x])
        stem = raw_name[:len(raw_name) - len(old)] if old else raw_name
        ctx.check("refusal-only-documented", r[1] == "ValueError" and any_of([bad_sfx, not raw_name, stem + P.quoters.PATH_QUOTER(x) == ".", stem + P.quoters.PATH_QUOTER(x) == ".."]), r[1])
        return
    c = r[1]
    ctx.observe("path", c.raw_path)
    stem = raw_name[:len(raw_name) - len(old)] if old else raw_name
    ctx.note("raw_name", raw_name)
    ctx.check("raw-stem-kept-and-suffix-quoted-once", sym_eq(c.raw_name, stem + P.quoters.PATH_QUOTER(x)))
    up, cp = tuple(u.raw_parts), tuple(c.raw_parts)
    ctx.check("other-segments-untouched", sym_eq(cp[:-1], up[:-1]))
    ctx.check("keeps-scheme-and-authority", all_of([sym_eq(c.scheme, u.scheme), sym_eq(c.raw_authority, u.raw_authority)]))


BASES = [
    ("abs", ["http://h/a/b.c?q#f"]), ("abs-nopath", ["http://h"]), ("abs-root", ["http://h/"]), ("abs-dir", ["http://h/a/"]),
    ("abs-empty-seg", ["http://h/a//b"]), ("abs-leading-empty", ["http://h//a/b"]), ("rooted", ["/a/b"]), ("rootless", ["a/b"]), ("empty", [""]), ("rel-dir", ["a/"]),
    ("escaped", ["http://h/a%2", HEX, "b/c%", HEX, HEX, ".t%20x"]), ("hole", ["http://h/a/", NS, "/b"]), ("nonascii", ["http://h/μ/ν.ξ"]),
]


def families(tier):
    q = tier == "quick"
    fams = []
    segs = [("free1", [NS]), ("free2", [NS, NS])] + ([] if q else [("free3", [NS, NS, NS])])
    segs += [("dotty", [("in", "./a"), ("in", "./a"), ("in", "./a")])]
    heavy = ("escaped", "hole")        # bases with free holes: only 1-code-point arguments in the quick tier
    for bn, bsk in BASES:
        for sn, ssk in segs:
            if q and bn in heavy and sn != "free1":
                continue
            if not q and bn in heavy and sn == "free3":
                continue
            fams.append(Family("child/%s/%s" % (bn, sn), h_child, dict(base_sk=bsk, seg_sk=ssk)))
        if not (q and bn in heavy):
            fams.append(Family("spellings/%s" % bn, h_spellings, dict(base_sk=bsk, n=1)))
            sl = ("in", "/a")
            fams.append(Family("spellings-multiseg/%s" % bn, h_spellings, dict(base_sk=bsk, n=0, a_sk=["a", sl, sl] + ([] if q else [sl]), c_sk=["c", sl])))
        for n in ((1, 2) if q else (1, 2, 3)):
            if q and bn in heavy and n > 1:
                continue
            if not q and bn in heavy and n > 2:
                continue
            fams.append(Family("with_name/%s/n=%d" % (bn, n), h_with_name, dict(base_sk=bsk, n=n)))
        for sn, ssk in [("dot1", [".", NS]), ("dot2", [".", NS, NS]), ("any2", [NS, NS]), ("empty", [])]:
            if q and bn in heavy and sn in ("dot2", "any2"):
                continue
            fams.append(Family("with_suffix/%s/%s" % (bn, sn), h_with_suffix, dict(base_sk=bsk, sfx_sk=ssk)))
    for sn in ("raw1", "raw2"):
        fams.append(Family("with_suffix/escaped-name/%s" % sn, h_with_suffix,
                           dict(base_sk=["http://h/d/n%", HEX, HEX, "m.t" if sn == "raw1" else "m%2Et"], sfx_sk=[".", NS])))
    return fams
