"""C01 -- canonical output is well-formed ASCII in every component."""
from common import Family
import kernel as K
import urlfam as UF

PROPERTY = "C01"
LEVEL = "model_checking"
BUDGET = {"quick": 240, "thorough": 2400}
BOUNDS = {"quick": "kernel: all texts of <= 3 code points (all of Unicode incl. surrogates) x 9 quoters x 2 backends; URL level: 26 entry points "
                   "(constructor per component, build per argument, every with_*, query operations, /, joinpath, join) with text of <= 2 free "
                   "code points or an escape with symbolic hex digits (+1 free)",
          "thorough": "kernel: all texts of <= 4 code points x 9 quoters x 2 backends; URL level: <= 3 free code points, both backends throughout"}
ASSUMPTIONS = ["texts longer than the bound are outside the claim",
               "functools.lru_cache is bypassed (treated as a transparent memo)"]
MANIFEST_ENTRY = {
    "text": "Bounded model checking: the real quoter source (pure Python, and the Cython source lowered to Python with C semantics) is executed "
            "symbolically for every text within the bound; on every feasible path z3 decides that each output character is an RFC-3986 literal of "
            "the component or '%' followed by two upper-case hex digits.",
    "note": "Bounds in evidence.coverage.bounds. Trusted: sx engine + models (concordance-validated per path), z3, the pyx lowering (validated against the rebuilt extension).",
    "technique": "symbolic execution of the instrumented quoter sources with z3 (QF_BV) deciding every branch and the output-alphabet postcondition",
}
ANCHORS = ["_quoting_py.py:_Quoter.__call__"]


def families(tier):
    n = 3 if tier == "quick" else 4
    fams = []
    for name in K.QUOTERS:
        for k in range(1, n + 1):
            fams.append(Family("kernel/%s/n=%d" % (name, k), K.h_wellformed, dict(name=name, n=k), backends=("py", "c")))
    fams += UF.families(UF.h_c01, tier)
    return fams
