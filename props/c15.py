"""C15 -- dot segments are removed exactly when an authority is present."""
from common import Family, call, outcome, all_of, any_of, sym_eq, lengths
import oracles as O
import urlkit as U

PROPERTY = "C15"
LEVEL = "model_checking"
BUDGET = {"quick": 240, "thorough": 2400}
BOUNDS = {"quick": "kernel: rooted paths of <= 4 segments with <= 4 free characters in total; URL level: <= 3 free holes per entry point",
          "thorough": "kernel: rooted paths of <= 5 segments with <= 6 free characters; URL level: <= 4 free holes per entry point"}
ASSUMPTIONS = ["URL-level free holes exclude lone surrogates (they are dropped by the quoter and can thereby create or remove structure; "
               "the sibling properties except them as well)",
               "the matching quoter (PATH_REQUOTER / PATH_QUOTER, covered by C01-C04) is used to canonicalise supplied text before the reference "
               "remove_dot_segments is applied",
               "segment/hole counts beyond the bound are outside the claim",
               "functools.lru_cache is bypassed (treated as a transparent memo)"]
MANIFEST_ENTRY = {
    "text": "Bounded model checking: normalize_path and every path-producing entry point (constructor incl. %2E spellings chosen by the solver, build, "
            "with_path, /, joinpath, join) are executed symbolically; z3 decides on every feasible path that the raw path equals a literal "
            "transcription of RFC 3986 5.2.4 on the rooted supplied/merged path, has no dot segment under an authority, is idempotent, and is verbatim "
            "without an authority.",
    "note": "Bounds in evidence.coverage.bounds. Trusted: sx engine + models (concordance-validated per path), z3, the RFC transcription in props/oracles.py.",
    "technique": "symbolic execution of the instrumented yarl source with z3 (QF_BV) against an RFC 3986 5.2.4 transcription",
}


def h_kernel(ctx, lens):
    """normalize_path on a rooted path whose segments are free text"""
    p = ""
    for i, n in enumerate(lens):
        p = p + "/" + (ctx.str("g%d" % i, n) if n else "")
    P = ctx.P
    r = call(P.path.normalize_path, p)
    ctx.observe("normalize_path", r[:2])
    ctx.check("no-exception", r[0] == "ok", r[1])
    exp = O.remove_dot_segments(p)
    ctx.check("rfc-5.2.4", sym_eq(r[1], exp))
    r2 = call(P.path.normalize_path, r[1])
    ctx.check("idempotent", r2[0] == "ok" and sym_eq(r2[1], r[1]))
    ctx.check("no-dot-segment", U.no_dot_segment(r[1]))


def expect_path(P, supplied_rooted_quoted):
    return O.remove_dot_segments(supplied_rooted_quoted)


def h_ctor(ctx, skeleton, authority=True):
    """URL('http://h' + path): requote, then remove dot segments; without authority verbatim"""
    path = U.text(ctx, skeleton)
    P = ctx.P
    ctx.assume(all_of(["?" not in path, "#" not in path, "\t" not in path, "\n" not in path, "\r" not in path]), "hole is path text")
    if not authority:
        ctx.assume(path[:2] != "//", "no authority: the path does not start with //")
    base = "http://h" if authority else "x:"
    r = call(P.URL, base + path)
    ctx.observe("URL", r[:1])
    ctx.check("no-exception", r[0] == "ok", r[1])
    u = r[1]
    ctx.observe("raw_path", u.raw_path)
    q = P.quoters.PATH_REQUOTER(path)
    if authority:
        ctx.check("no-dot-segment", U.no_dot_segment(u.raw_path))
        ctx.check("rfc-5.2.4", sym_eq(u.raw_path, O.remove_dot_segments(q) if q else "/"))
        u2 = call(P.URL, str(u))
        ctx.check("idempotent", u2[0] == "ok" and sym_eq(u2[1].raw_path, u.raw_path))
    else:
        ctx.check("verbatim-without-authority", sym_eq(u.raw_path, q))


def h_build(ctx, skeleton, authority=True):
    path = U.text(ctx, skeleton)
    P = ctx.P
    if authority:
        r = call(P.URL.build, scheme="http", host="h", path=path)
    else:
        r = call(P.URL.build, path=path)
    ctx.observe("build", r[:2] if r[0] == "exc" else r[:1])
    q = P.quoters.PATH_QUOTER(path)
    if r[0] == "exc":
        # documented refusal: a path under an authority must start with '/'
        ctx.check("refusal-only-for-rootless", r[1] == "ValueError" and authority and (not sym_eq(O.remove_dot_segments(q)[:1], "/")), r[1])
        return
    u = r[1]
    ctx.observe("raw_path", u.raw_path)
    if authority:
        ctx.check("no-dot-segment", U.no_dot_segment(u.raw_path))
        ctx.check("rfc-5.2.4", sym_eq(u.raw_path, O.remove_dot_segments(q) if q else "/"))
    else:
        ctx.check("verbatim-without-authority", sym_eq(u.raw_path, q))


def h_with_path(ctx, skeleton, authority=True):
    path = U.text(ctx, skeleton)
    P = ctx.P
    base = P.URL("http://h/x/y?q#f") if authority else P.URL("/x/y?q#f")
    r = call(base.with_path, path)
    ctx.observe("with_path", r[:1])
    ctx.check("no-exception", r[0] == "ok", r[1])
    u = r[1]
    ctx.observe("raw_path", u.raw_path)
    q = P.quoters.PATH_QUOTER(path)
    if authority:
        ctx.check("no-dot-segment", U.no_dot_segment(u.raw_path))
        rooted = q if q[:1] == "/" else "/" + q
        ctx.check("rfc-5.2.4", sym_eq(u.raw_path, O.remove_dot_segments(rooted)))
    else:
        ctx.check("verbatim-without-authority", sym_eq(u.raw_path, q if (not q or q[:1] == "/") else "/" + q))


def h_child(ctx, skeleton, base_path, authority=True, route="div"):
    seg = U.text(ctx, skeleton)
    P = ctx.P
    base = P.URL(("http://h" if authority else "") + base_path)
    if route == "div":
        r = call(lambda: base / seg)
    else:
        r = call(base.joinpath, seg)
    ctx.observe("child", r[:2] if r[0] == "exc" else r[:1])
    if r[0] == "exc":
        ctx.check("refusal-only-for-leading-slash", r[1] == "ValueError" and seg[:1] == "/", r[1])
        return
    u = r[1]
    ctx.observe("raw_path", u.raw_path)
    q = P.quoters.PATH_QUOTER(seg)
    bp = base_path if base_path else ("/" if authority else "")
    merged = (bp if bp[-1:] == "/" else bp + "/") + q if bp else q
    ctx.note("merged", merged)
    if authority:
        ctx.check("no-dot-segment", U.no_dot_segment(u.raw_path))
        if "." in q:
            ctx.check("rfc-5.2.4", sym_eq(u.raw_path, O.remove_dot_segments(merged)))
        else:
            ctx.check("spliced", sym_eq(u.raw_path, merged))
    else:
        ctx.check("verbatim-without-authority", sym_eq(u.raw_path, merged))


def h_joinpath_multi(ctx, base_path, sk1, sk2):
    """joinpath(a, b): dots in any argument are removed under an authority; equals joinpath(a).joinpath(b)"""
    P = ctx.P
    a = U.text(ctx, sk1, prefix="a")
    b = U.text(ctx, sk2, prefix="b")
    ctx.assume(all_of([a[:1] != "/", b[:1] != "/", len(a) > 0, len(b) > 0]), "non-empty arguments that do not start with '/'")
    base = P.URL("http://h" + base_path)
    r = call(base.joinpath, a, b)
    ctx.observe("joinpath", outcome(r))
    ctx.check("no-exception", r[0] == "ok", r[1])
    u = r[1]
    ctx.observe("raw_path", u.raw_path)
    bp = base_path if base_path else "/"
    qa = P.quoters.PATH_QUOTER(a)
    if qa[-1:] == "/":
        qa = qa[:-1]        # documented: a trailing empty segment of a non-last argument is not kept
    merged = (bp if bp[-1:] == "/" else bp + "/") + qa + "/" + P.quoters.PATH_QUOTER(b)
    ctx.note("merged", merged)
    ctx.check("no-dot-segment", U.no_dot_segment(u.raw_path))
    ctx.check("rfc-5.2.4", sym_eq(u.raw_path, O.remove_dot_segments(merged)))


def h_join(ctx, skeleton, base_path):
    """base.join(ref) with a path-only reference: merged path has its dot segments removed"""
    ref = U.text(ctx, skeleton)
    P = ctx.P
    ctx.assume(all_of(["?" not in ref, "#" not in ref, ":" not in ref, "\t" not in ref, "\n" not in ref, "\r" not in ref,
                       ref[:2] != "//", ref[:1] not in O.C0_SPACE]), "reference is a relative path")
    base = P.URL("http://h" + base_path)
    r = call(lambda: base.join(P.URL(ref)))
    ctx.observe("join", r[:1])
    ctx.check("no-exception", r[0] == "ok", r[1])
    u = r[1]
    ctx.observe("raw_path", u.raw_path)
    ctx.check("no-dot-segment", U.no_dot_segment(u.raw_path))
    q = P.quoters.PATH_REQUOTER(ref)
    if not q:
        exp = base.raw_path
    elif q[:1] == "/":
        exp = O.remove_dot_segments(q)
    else:
        exp = O.remove_dot_segments(O.merge(True, base.raw_path if base_path else "", q))
    ctx.check("rfc-5.2.4", sym_eq(u.raw_path, exp))


DOT = ("in", "./a")
PCT = ["/", "%", ("in", "2"), ("in", "Ee"), "/", "%2", ("in", "eE"), ("in", "./a")]


def families(tier):
    q = tier == "quick"
    fams = []
    tot = 4 if q else 6
    for k in range(1, (4 if q else 5) + 1):
        for lens in lengths(tot, k):
            if all(n <= 2 for n in lens) and (sum(lens) >= min(tot, k) - 1 or q is False):
                fams.append(Family("kernel/segments=%s" % "-".join(map(str, lens)), h_kernel, dict(lens=lens)))
    holes3 = ["/", None, None, "/", None]
    NS = ("ns",)
    sk_sets = [("free3", ["/", NS, NS, NS]), ("dots", ["/", DOT, DOT, "/", DOT, DOT]), ("pct", PCT),
               ("mixed", ["/a/", NS, NS, "/b/", DOT, DOT])]
    if not q:
        sk_sets += [("free4", ["/", NS, NS, "/", NS, NS]), ("dots6", ["/", DOT, DOT, DOT, DOT, DOT, DOT])]
    for nm, sk in sk_sets:
        fams.append(Family("ctor/authority/%s" % nm, h_ctor, dict(skeleton=sk)))
        fams.append(Family("ctor/no-authority/%s" % nm, h_ctor, dict(skeleton=sk, authority=False)))
        fams.append(Family("build/authority/%s" % nm, h_build, dict(skeleton=sk)))
        fams.append(Family("with_path/authority/%s" % nm, h_with_path, dict(skeleton=sk)))
    fams.append(Family("build/no-authority/dots", h_build, dict(skeleton=["/", DOT, DOT, "/", DOT], authority=False)))
    fams.append(Family("with_path/no-authority/dots", h_with_path, dict(skeleton=["/", DOT, DOT, "/", DOT], authority=False)))
    fams.append(Family("with_path/authority/rootless", h_with_path, dict(skeleton=[DOT, DOT, "/", DOT])))
    for bp in ["", "/", "/x", "/x/", "/x/y"]:
        for nm, sk in [("dots", [DOT, DOT, "/", DOT, DOT] if not q else [DOT, DOT, "/", DOT]), ("free2", [NS, NS])]:
            fams.append(Family("div/authority/base=%s/%s" % (bp, nm), h_child, dict(skeleton=sk, base_path=bp)))
            fams.append(Family("joinpath/authority/base=%s/%s" % (bp, nm), h_child, dict(skeleton=sk, base_path=bp, route="joinpath")))
            fams.append(Family("join/base=%s/%s" % (bp, nm), h_join, dict(skeleton=sk, base_path=bp)))
        fams.append(Family("div/no-authority/base=%s/dots" % bp, h_child, dict(skeleton=[DOT, DOT, "/", DOT], base_path=bp, authority=False)))
        if bp in ("", "/x", "/x/y") or not q:
            fams.append(Family("joinpath-multi/base=%s" % bp, h_joinpath_multi, dict(base_path=bp, sk1=[DOT, DOT], sk2=[DOT, DOT])))
    return fams
