"""C14 -- join() is RFC 3986 section 5.2 reference resolution."""
from common import Family, call, outcome, all_of, any_of, sym_eq
import oracles as O
import urlkit as U

PROPERTY = "C14"
LEVEL = "model_checking"
BUDGET = {"quick": 240, "thorough": 2400}
BOUNDS = {"quick": "bases from a list of 14 shapes (with/without authority, empty path, trailing slash, escapes incl. %2F/%3F/%23 with symbolic hex "
                   "digits, query, fragment) x references of <= 3 free code points and reference skeletons with <= 3 holes; "
                   "three bases taken verbatim (encoded=True) whose paths still carry dot segments (one with 2 holes over './b'; 4 in the thorough tier) x 9 reference families",
          "thorough": "references of <= 3 free code points on every base, <= 4 on three bases"}
ASSUMPTIONS = ["an empty query/fragment is treated as absent (yarl cannot represent 'defined but empty')",
               "bases without an authority whose path is empty or rootless are excluded: RFC 3986's merge is ill-defined for them and yarl "
               "follows urllib.parse.urljoin there (DESIGN.md section 7)",
               "references are parsed by the real constructor (covered by C07); reference holes exclude lone surrogates and non-ASCII authority text",
               "the base's scheme supports relative resolution (http) or is empty; other-scheme / non-relative-scheme cases must return the reference"]
MANIFEST_ENTRY = {
    "text": "Bounded model checking of URL.join against a literal transcription of RFC 3986 5.2.2-5.2.4 (non-strict) applied to the encoded "
            "components: the solver chooses the reference text (and hex digits of escapes in the base); z3 decides component equality on every path.",
    "note": "Bounds in evidence.coverage.bounds. Trusted: sx engine + models (concordance-validated per path), z3, the RFC transcription in props/oracles.py.",
    "technique": "symbolic execution of the instrumented yarl source with z3 (QF_BV) against an RFC 3986 5.2 transcription",
}


def comps(u):
    """(scheme, authority|None, path, query|None, fragment|None) of a yarl URL, empty query/fragment = absent"""
    a = u.raw_authority
    return (u.scheme, a if a else None, u._path, u.raw_query_string or None, u.raw_fragment or None)


def norm(c):
    """an empty path under an authority equals '/'"""
    s, a, p, q, f = c
    return (s, a, "/" if (a is not None and not p) else p, q, f)


def h_join(ctx, base_sk, ref_sk, base_encoded=False):
    P = ctx.P
    bt = U.text(ctx, base_sk, prefix="b")
    rt = U.text(ctx, ref_sk, prefix="r")
    # base_encoded: the base is taken verbatim (encoded=True), so its path may still carry dot segments when join() merges it
    b = call(P.URL, bt, encoded=True) if base_encoded else call(P.URL, bt)
    r = call(P.URL, rt)
    ctx.observe("parse", (outcome(b), outcome(r)))
    if b[0] != "ok" or r[0] != "ok":
        return
    base, ref = b[1], r[1]
    cb, cr = comps(base), comps(ref)
    # excluded region: base without authority and with an empty or rootless path
    if cb[1] is None:
        ctx.assume(cb[2][:1] == "/", "base has an authority or a rooted path")
    j = call(base.join, ref)
    ctx.observe("join", outcome(j))
    ctx.check("no-exception", j[0] == "ok", j[1])
    res = j[1]
    cj = comps(res)
    ctx.observe("result", str(res))
    ctx.note("base", cb)
    ctx.note("ref", cr)
    if cr[0] and not sym_eq(cr[0], cb[0]):
        ctx.check("other-scheme-returns-reference", sym_eq(norm(cj), norm(cr)))
        return
    exp = O.resolve(cb, cr)
    exp = norm(exp)
    got = norm(cj)
    ctx.check("scheme", sym_eq(got[0], exp[0]))
    ctx.check("authority", sym_eq(got[1], exp[1]))
    ctx.check("path", sym_eq(got[2], exp[2]))
    ctx.check("query", sym_eq(got[3], exp[3]))
    ctx.check("fragment", sym_eq(got[4], exp[4]))


def h_schemes(ctx):
    """every scheme that supports relative resolution (urllib.parse.uses_relative) resolves a relative reference"""
    from urllib.parse import uses_relative, uses_netloc
    P = ctx.P
    t = ctx.str("t", 1, lo=97, hi=122)
    for sc in sorted(set(uses_relative)):
        if not sc:
            continue
        base = P.URL(sc + "://a/b/c?q#f")
        r = call(lambda: base.join(P.URL(t + "?y")))
        ctx.check("relative-scheme-resolves:" + sc, r[0] == "ok" and sym_eq(str(r[1]), sc + "://a/b/" + t + "?y"), sc)
    for sc in ("mailto", "data", "urn", "x"):
        base = P.URL(sc + ":a/b")
        r = call(lambda: base.join(P.URL(t)))
        ctx.check("non-relative-scheme-returns-reference:" + sc, r[0] == "ok" and sym_eq(str(r[1]), t), sc)
    ctx.observe("done", True)


def h_nonrelative(ctx, ref_sk):
    """a base whose scheme does not support relative resolution yields the reference unchanged"""
    P = ctx.P
    rt = U.text(ctx, ref_sk, prefix="r")
    r = call(P.URL, rt)
    ctx.observe("parse", outcome(r))
    if r[0] != "ok":
        return
    base = P.URL("mailto:someone@example.com")
    j = call(base.join, r[1])
    ctx.observe("join", outcome(j))
    ctx.check("no-exception", j[0] == "ok", j[1])
    ctx.check("reference-unchanged", sym_eq(j[1]._val, r[1]._val))


HEX = ("hex",)
NS = ("ns",)
PA = ("in", "./ab%2Ff")
BASES = [
    ("abs-full", ["http://a/b/c/d;p?q#f"]), ("abs-nopath", ["http://a"]), ("abs-root", ["http://a/"]), ("abs-file", ["http://a/b"]),
    ("abs-dir", ["http://a/b/"]), ("abs-query", ["http://a/b?q"]), ("abs-frag", ["http://a/b#f"]), ("abs-qf", ["http://a?q#f"]),
    ("netpath", ["//a/b/c"]), ("rooted", ["/b/c/d?q"]),
    ("escaped-slash", ["http://a/b%2", HEX, "c/d"]), ("escaped-any", ["http://a/x%", HEX, HEX, "y/z"]),
    ("escaped-last", ["http://a/b/c%", HEX, HEX]), ("hole", ["http://a/", NS, "/c?q#f"]),
]
REFS = [
    ("free1", [NS]), ("free2", [NS, NS]), ("free3", [NS, NS, NS]),
    ("path3", [PA, PA, PA]), ("dots", [("in", "./"), ("in", "./"), ("in", "./a"), ("in", "./a")]),
    ("query", ["?", NS]), ("fragment", ["#", NS]), ("empty", []), ("qonly", ["?"]), ("fonly", ["#"]),
    ("same-scheme", ["http:", PA, PA]), ("other-scheme", ["ftp://x/", NS]), ("netpath", ["//", ("in", "xy"), ("in", "/?#a")]),
    ("rooted", ["/", PA, PA]), ("pq", [PA, "?", NS, "#", NS]),
]


def families(tier):
    q = tier == "quick"
    fams = []
    refs = REFS if not q else [r for r in REFS if r[0] not in ("free3",)]
    if not q:
        refs = refs + [("free4", [NS, NS, NS, NS]), ("path4", [PA, PA, PA, PA])]
    for bn, bsk in BASES:
        for rn, rsk in refs:
            if q and bn in ("escaped-any", "hole") and rn in ("path3", "dots", "free2"):
                continue
            if rn in ("free4", "path4") and bn not in ("abs-full", "abs-nopath", "escaped-slash"):
                continue
            if not q and bn in ("escaped-any", "hole") and rn in ("free3",):
                continue
            fams.append(Family("join/%s/%s" % (bn, rn), h_join, dict(base_sk=bsk, ref_sk=rsk)))
    DS = ("in", "./b")
    enc_bases = [("enc-dots", ["http://a/b/../c/./d"]), ("enc-dots-dir", ["http://a/x/./y/../"]),
                 ("enc-dots-hole", ["http://a/", DS, DS, "/c/./d?q#f"] if q else ["http://a/", DS, DS, "/", DS, DS, "/d?q#f"])]
    for bn, bsk in enc_bases:
        for rn, rsk in refs:
            if rn in ("free1", "path3", "empty", "query", "fragment", "rooted", "same-scheme", "qonly", "pq") or (not q and rn in ("free2", "dots")):
                fams.append(Family("join-encoded-base/%s/%s" % (bn, rn), h_join, dict(base_sk=bsk, ref_sk=rsk, base_encoded=True)))
    for rn, rsk in refs[:6]:
        fams.append(Family("nonrelative-base/%s" % rn, h_nonrelative, dict(ref_sk=rsk)))
    fams.append(Family("schemes", h_schemes, {}))
    return fams
