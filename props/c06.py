"""C06 -- decoded views are faithful and supplied values read back unchanged."""
from common import Family
import kernel as K
import urlfam as UF

PROPERTY = "C06"
LEVEL = "model_checking"
BUDGET = {"quick": 240, "thorough": 3600}
BOUNDS = {"quick": "kernel: 4 unquoters x all raw texts of <= 3 code points + escape-run skeletons (4 hex holes + 1 free) x 2 backends; U(Q(t)) == t for <= 2 code points",
          "thorough": "kernel: raw texts of <= 4 code points + escape-run skeletons (8 hex holes); round trip <= 3 code points"}
ASSUMPTIONS = ["lone surrogates are excluded from the read-back clause (the property excepts them)",
               "texts longer than the bound are outside the claim"]
MANIFEST_ENTRY = {
    "text": "Bounded model checking: the real unquoters (both backends) equal a reference UTF-8 percent-decoder with verbatim fallback on every feasible "
            "path, incl. truncated/overlong/non-UTF-8 escape runs whose hex digits the solver chooses; and U(Q(t)) == t for the write/read pairs.",
    "note": "Bounds in evidence.coverage.bounds. Trusted: sx engine + models incl. the UTF-8 automaton (concordance-validated per path against the real codec), z3, the pyx lowering.",
    "technique": "symbolic execution of the instrumented unquoter sources with z3 (QF_BV) against a reference text decoder",
}

RUNS = [
    ["%", "X", "X", "%", "X", "X"],
    ["%", "X", "X", "%", "X", "X", "%", "X", "X"],
    ["%", "X", "X", None, "%", "X", "X"],
    [None, "%", "X", "X", "%", "X", "X"],
    ["%E", "X", "%", "X", "X", "%", "X", "X"],
    ["%F", "X", "%", "X", "X", "%8", "X", "%", "X", "X"],
]


def families(tier):
    q = tier == "quick"
    n = 3 if q else 4
    fams = []
    for name in K.UNQUOTERS:
        for k in range(1, n + 1):
            fams.append(Family("kernel/%s/n=%d" % (name, k), K.h_unquote, dict(name=name, n=k), backends=("py", "c")))
        for i, sk in enumerate(RUNS):
            if q and i not in (0, 2, 3):
                continue
            if i == 5 and name != "UNQUOTER":
                continue        # the 4-byte run skeleton (7 hex holes) only for the plain unquoter
            if i == 4 and name not in ("UNQUOTER", "QS_UNQUOTER"):
                continue
            fams.append(Family("kernel/%s/run-%d" % (name, i), K.h_unquote, dict(name=name, n=0, skeleton=sk), backends=("py", "c")))
    for qn, un in K.PAIRS:
        for k in range(1, (2 if q else 3) + 1):
            fams.append(Family("roundtrip/%s-%s/n=%d" % (qn, un, k), K.h_roundtrip, dict(qname=qn, uname=un, n=k), backends=("py", "c")))
    fams += UF.families(UF.h_c06, tier, decoded_only=True)
    return fams
