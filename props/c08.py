"""C08 -- URL values are immutable and results do not depend on history."""
from common import Family, call, outcome, EXCLUDED, all_of, any_of, sym_eq
import urlkit as U
import c05 as C05
import c09 as C09

PROPERTY = "C08"
LEVEL = "model_checking"
BUDGET = {"quick": 270, "thorough": 2700}
BOUNDS = {"quick": "inductive step: URLs from 6 skeletons (<= 2 free holes) x warm-up member B (every member that writes a cache key other than its "
                   "own, found by a dry run on the live class, plus 'none' and hash/str/==/pickle) x member A (every accessor / nullary method, in "
                   "slots) and every modifier with a 1-code-point argument; lru key model: two-call histories of make_netloc, _encode_host, "
                   "split_netloc, from_parts, encode_url with symbolic arguments; kernel two-call histories of the 13 quoter/unquoter "
                   "instances with texts of <= 2 code points; unpickling next to a cached object; concrete (no solver): numeric query-value "
                   "histories and six pairs of host spellings that fold to one encoded host, warm vs cold",
          "thorough": "all ordered pairs B;A for the authority and escape skeletons, every third pair for the others; 6 skeletons x all modifiers "
                      "from the all-warm state and one or two other warm-ups; kernel two-call histories of <= 2 code points each plus escape skeletons"}
ASSUMPTIONS = ["results depend on history only through URL._cache, the functools.lru_cache wrappers and the state of the quoter/unquoter instances: "
               "Inv = every cache entry equals what a cache-free twin computes; by induction on Inv the one-step check covers call sequences of any length",
               "functools.lru_cache is modelled as an association list keyed on the argument tuple with Python equality (so 1 == True collide, as in "
               "functools); eviction and cache_configure()/cache_clear() re-wrap the same functions and are exercised concretely on every path "
               "witness (cache sizes 0, 1, None, default) - reported separately from the solver claim",
               "symbolic host text that looks like an IP literal, non-ASCII authority text and IDNA are cut and counted; history through the IDNA "
               "caches is therefore only exercised on concrete non-ASCII hosts (host-history-concrete), outside the solver claim",
               "the all-warm state before every modifier = every cross-writing member plus ordering, hash, str, == and __getstate__"]
MANIFEST_ENTRY = {
    "text": "Bounded model checking of an inductive step: from a URL with symbolic parts and a cache warmed by another member B, every member A "
            "leaves the five slots of every operand and all arguments unchanged, keeps Inv (each cache entry equals the cache-free value) for "
            "operands and results, and returns what a cold twin returned before B ran; plus two-call histories through a model of lru_cache keys "
            "and through the quoter/unquoter instances.",
    "note": "Bounds in evidence.coverage.bounds. Trusted: sx engine + models (concordance-validated per path; cache size configurations swept "
            "concretely there), z3; the inductive argument assumes history flows only through _cache, the lru wrappers and quoter instance state.",
    "technique": "symbolic execution of the instrumented yarl source with z3 (QF_BV): one inductive step from an arbitrary warm state vs a cold twin",
}
NS = ("ns",)
same = C09.same
NSLOTS = 6


def slots(u):
    return (u._scheme, u._netloc, u._path, u._query, u._fragment)


def run_member(P, u, name, methods, arg=None):
    if name == "none":
        return ("ok", None)
    if name == "hash":
        return call(hash, u)
    if name == "str":
        return call(str, u)
    if name == "eq":
        return call(lambda: u == P.url.from_parts_uncached(*slots(u)))
    if name == "lt":
        return call(lambda: u < P.url.from_parts_uncached("", "", "", "", ""))
    if name == "getstate":
        return call(lambda: u.__getstate__())
    if name.startswith("mod:"):
        m = name[4:]
        if m == "div":
            return call(lambda: u / arg)
        if m == "join":
            return call(lambda: u.join(P.URL(arg)))
        if m == "with_port":
            return call(lambda: u.with_port(81))
        if m == "without_query_params":
            return call(lambda: u.without_query_params("x", "k"))
        return call(lambda: getattr(u, m)(arg))
    if name in methods:
        return call(lambda: getattr(u, name)())
    return call(lambda: getattr(u, name))


def cross_writers(P):
    """members whose evaluation writes a cache key other than their own (dry run on the live class)"""
    names, methods = U.discover(P)
    out = []
    for n in names + ["hash", "str", "eq", "lt", "getstate"]:
        try:
            u = P.url.from_parts_uncached("http", "u:p@h:81", "/a/b.c", "x=1", "f")
            before = set(u._cache)
            run_member(P, u, n, methods)
            new = set(u._cache) - before
        except Exception:
            continue
        if new - {n}:
            out.append(n)
    return out


def inv(ctx, u, tag):
    """every cache entry equals what a cache-free twin computes"""
    P = ctx.P
    names, methods = U.discover(P)
    for k in list(u._cache):
        twin = P.url.from_parts_uncached(*slots(u))
        if k == "hash":
            exp = call(hash, twin)
        elif k in names and k not in methods:
            exp = call(lambda: getattr(twin, k))
        elif hasattr(type(u), k):
            exp = call(lambda: getattr(twin, k))
        else:
            continue
        if exp[0] == "excluded":
            continue
        ctx.check("Inv:%s:%s" % (tag, k), exp[0] == "ok" and same(("ok", u._cache[k]), exp), k)


def make_url(ctx, skeleton, route):
    P = ctx.P
    t = U.text(ctx, skeleton)
    if route == "ctor":
        r = call(P.URL, t)
    else:
        r = call(P.URL, t, encoded=True)
    return r


def h_step(ctx, skeleton, route, b_index, a_slot, mod=None):
    P = ctx.P
    r = make_url(ctx, skeleton, route)
    ctx.observe("URL", outcome(r))
    if r[0] != "ok":
        return
    u = r[1]
    names, methods = U.discover(P)
    writers = ["none"] + cross_writers(P)
    b = "all" if b_index < 0 else writers[b_index % len(writers)]
    before = slots(u)
    twin = P.url.from_parts_uncached(*before)
    if mod is None:
        members = (names + ["hash", "str", "eq", "getstate"])[a_slot::NSLOTS]
        members = [m for m in members if m not in U.IDNA_LAST] + [m for m in members if m in U.IDNA_LAST]
        arg = None
    else:
        members = ["mod:" + mod]
        arg = ctx.str("a", 1, no_surrogates=True)
    # cold outcomes first (nothing ran before), then the warm-up, then the same calls on the warm object
    cold = [run_member(P, twin, m, methods, arg) for m in members]
    if b == "all":
        # the warmest state: every member that fills a cache key other than its own, plus ordering, hash (its memo is a hand-stored cache key,
        # not a cached property), str, equality and pickling state
        rb = ("ok", None)
        for w in writers[1:] + ["lt", "hash", "str", "eq", "getstate"]:
            x = run_member(P, u, w, methods)
            if x[0] == "excluded":
                rb = x
    else:
        rb = run_member(P, u, b, methods)
    ctx.observe("warm-up:" + b, outcome(rb))
    if rb[0] == "excluded":
        return
    ctx.check("warm-up-leaves-slots", sym_eq(slots(u), before))
    inv(ctx, u, "after-warm-up")
    for m, c in zip(members, cold):
        w = run_member(P, u, m, methods, arg)
        if c[0] == "excluded" or w[0] == "excluded":
            ctx.observe(m, EXCLUDED)
            continue
        ctx.observe(m, outcome(w))
        ctx.check("warm-equals-cold:" + m, same(w, c), (m, b))
        ctx.check("slots-unchanged:" + m, sym_eq(slots(u), before))
        if w[0] == "ok" and type(w[1]).__name__ == "URL":
            inv(ctx, w[1], "result:" + m)
    inv(ctx, u, "after")
    if arg is not None:
        ctx.check("argument-unchanged", sym_eq(arg, ctx.inputs["a"]))
    if not ctx.sym:
        # cache size configurations (concrete sweep on the real build)
        cfg = P.yarl.cache_configure
        for kw in (dict(idna_encode_size=0, idna_decode_size=0, encode_host_size=0), dict(idna_encode_size=1, idna_decode_size=1, encode_host_size=1),
                   dict(idna_encode_size=None, idna_decode_size=None, encode_host_size=None), dict()):
            cfg(**kw)
            t2 = P.url.from_parts_uncached(*before)
            for m, c in zip(members, cold):
                ctx.check("cache-size-independent:" + m, same(run_member(P, t2, m, methods, arg), c))
        P.yarl.cache_clear()


class LruModel:
    """association list per wrapped function, keyed on the argument tuple with Python equality"""

    def __init__(self):
        self.entries = []

    def __call__(self, f, args, kw):
        key = (f.__wrapped__, tuple(args), tuple(sorted(kw.items())))
        for k, v in self.entries:
            if k[0] is key[0] and len(k[1]) == len(key[1]) and k[2] == key[2]:
                eq = all_of([_py_eq(x, y) for x, y in zip(k[1], key[1])])
                if eq is True or (eq is not False and bool(eq)):
                    return v
        v = f.__wrapped__(*args, **kw)
        self.entries.append((key, v))
        return v


def _py_eq(x, y):
    """Python equality as lru_cache's key comparison sees it (typed=False): 1 == True, 0 == False"""
    if x is None or y is None:
        return x is y
    if isinstance(x, (bool, int)) and isinstance(y, (bool, int)):
        return int(x) == int(y)
    if isinstance(x, bool) or isinstance(y, bool):
        return (int(x) if isinstance(x, bool) else x) == (int(y) if isinstance(y, bool) else y)
    return sym_eq(x, y)


def with_lru(ctx, f):
    from sx import models
    if not ctx.sym:
        return f()
    m = LruModel()
    models.LRU_HOOK[0] = m
    try:
        return f()
    finally:
        models.LRU_HOOK[0] = None


def h_lru(ctx, which):
    P = ctx.P

    def body():
        if which == "make_netloc":
            u1 = ctx.str("u1", 1, lo=33, hi=126)
            u2 = ctx.str("u2", 1, lo=33, hi=126)
            p1 = ctx.int("p1", 0, 65535)
            p2 = ctx.int("p2", 0, 65535)
            e1 = ctx.bool("e1")
            e2 = ctx.bool("e2")
            e1 = bool(e1)
            e2 = bool(e2)
            a1 = (u1, "pw", "h", p1, e1)
            a2 = (u2, "pw", "h", p2, e2)
            f = P.parse.make_netloc
        elif which == "_encode_host":
            h1 = "g" + ctx.str("h1", 1, lo=33, hi=126)
            h2 = "g" + ctx.str("h2", 1, lo=33, hi=126)
            v1 = bool(ctx.bool("v1"))
            v2 = bool(ctx.bool("v2"))
            a1, a2 = (h1, v1), (h2, v2)
            f = P.url._encode_host
        elif which == "split_netloc":
            a1 = ("u" + ctx.str("n1", 2, lo=33, hi=126) + "h",)
            a2 = ("u" + ctx.str("n2", 2, lo=33, hi=126) + "h",)
            f = P.parse.split_netloc
        elif which == "from_parts":
            a1 = ("http", "h", "/" + ctx.str("x1", 1, no_surrogates=True), "q", "")
            a2 = ("http", "h", "/" + ctx.str("x2", 1, no_surrogates=True), "", "q")
            f = P.url.from_parts
        else:
            a1 = ("http://h/" + ctx.str("x1", 1, no_surrogates=True),)
            a2 = ("http://h/" + ctx.str("x2", 1, no_surrogates=True),)
            f = P.url.encode_url if which == "encode_url" else P.url.pre_encoded_url
        cold2 = call(f.__wrapped__, *a2)
        r1 = call(f, *a1)
        r2 = call(f, *a2)
        if r1[0] == "excluded" or r2[0] == "excluded" or cold2[0] == "excluded":
            ctx.observe("second-call", EXCLUDED)
            return
        ctx.observe("second-call", outcome(r2))
        ctx.check("second-call-equals-cold-call", same(r2, cold2), which)
    with_lru(ctx, body)


def h_kernel_history(ctx, name, n, skeleton=None):
    """q(s1); q(s2) on the live (shared) instance equals a fresh instance's q(s2)"""
    P = ctx.P
    kind, cfg = C05.CONFIGS[name]
    live = getattr(P.quoters, name)
    fresh = getattr(P.quoting, kind)(**cfg)
    if skeleton is None:
        s1 = ctx.str("s1", n)
        s2 = ctx.str("s2", n)
    else:
        s1 = U.text(ctx, skeleton, prefix="p")
        s2 = U.text(ctx, skeleton, prefix="r")
    cold = call(fresh, s2)
    r1 = call(live, s1)
    warm = call(live, s2)
    ctx.observe("calls", (outcome(r1), outcome(warm, value=True)))
    ctx.check("second-call-equals-fresh-instance", same(warm, cold))


def h_unpickle(ctx):
    """__setstate__ on a blank URL next to cached URL objects"""
    P = ctx.P

    def body():
        t = ctx.str("t", 1, no_surrogates=True)
        cached = [P.URL(""), P.URL("http://h/" + t), P.URL("", encoded=True)]
        snaps = [slots(c) for c in cached]
        src = P.url.from_parts_uncached("x", "h", "/" + t, "q", "f")
        v = P.URL.__new__(P.URL)
        v.__setstate__(src.__getstate__())
        ctx.check("unpickled-has-the-state", sym_eq(slots(v), slots(src)))
        for c, s in zip(cached, snaps):
            ctx.check("cached-object-not-mutated-by-unpickling", all_of([sym_eq(slots(c), s), v is not c]))
        again = [P.URL(""), P.URL("http://h/" + t), P.URL("", encoded=True)]
        for c, s in zip(again, snaps):
            ctx.check("constructor-result-unaffected-by-unpickling", sym_eq(slots(c), s))
        ctx.observe("done", True)
    with_lru(ctx, body)


def h_value_history(ctx):
    """numeric query values: the outcome does not depend on which equal-comparing value was converted before
    (0.0 == -0.0, 1 == 1.0 == True); finite type matrix, executed concretely"""
    P = ctx.P
    u = P.URL("http://h/")
    for first, second, exp in ((0.0, -0.0, "n=-0.0"), (-0.0, 0.0, "n=0.0"), (1, 1.0, "n=1.0"), (1.0, 1, "n=1"), (2.5, 2.5, "n=2.5")):
        for op in ("with_query", "update_query", "extend_query"):
            getattr(u, op)({"n": first})
            r = call(getattr(u, op), {"n": second})
            ctx.check("numeric-value-rendered-independently-of-history", r[0] == "ok" and r[1].raw_query_string == exp, (first, second, op))
    ctx.observe("done", True)


def h_host_history(ctx):
    """hosts whose spellings fold to the same encoded host (NFKC / case / IDNA): what a URL reports for host, authority, human_repr
    and str does not depend on which spelling was seen before (the two IDNA caches must not feed each other); concrete texts"""
    P = ctx.P
    rows = (("http://\uff25\uff38\uff21\uff2d\uff30\uff2c\uff25.com/", "http://example.com/", "example.com"),
            ("http://\ufb01sh.example/", "http://fish.example/", "fish.example"),
            ("http://B\u00dcCHER.example/", "http://xn--bcher-kva.example/", "b\u00fccher.example"),
            ("http://bu\u0308cher.example/", "http://b\u00fccher.example/", "b\u00fccher.example"),
            ("http://xn--bcher-kva.example/", "http://B\u00dcCHER.example/", "b\u00fccher.example"),
            ("http://EXAMPLE.com/", "http://\uff45xample.com/", "example.com"))

    def views(text, tag):
        # a fresh path per call: URL(text) itself is memoised by encode_url's lru_cache (which cache_clear() does not touch), and a memoised
        # object would answer from its own _cache without consulting the IDNA caches at all
        u = P.URL(text + tag)
        return (u.host, u.authority, u.human_repr().replace(tag, ""), str(u).replace(tag, ""), u.raw_host, u.host_subcomponent)
    n = 0
    for first, second, host in rows:
        for a, b in ((first, second), (second, first)):
            n += 1
            P.yarl.cache_clear()
            cold = call(views, b, "c%d" % n)
            P.yarl.cache_clear()
            call(views, a, "f%d" % n)
            warm = call(views, b, "w%d" % n)
            ctx.check("host-views-independent-of-earlier-spellings", cold[0] == warm[0] and cold[1] == warm[1], (a, b, cold[1], warm[1]))
            ctx.check("decoded-host-is-the-idna-decoding", warm[0] == "ok" and warm[1][0] == host, (b, warm[1]))
    ctx.observe("done", True)


SKELS = [("auth", ["http://u", NS, ":p@h:81/a/b.c?x=1#f"]), ("path", ["http://h/a", NS, "/b.c", NS, "?x=1&y=2#f"]), ("query", ["//h/p?", NS, "=", NS, "&k=v"]),
         ("frag", ["x://h:0/p#", NS, NS]), ("relative", [NS, "/b?q#f"]), ("escapes", ["http://h/%c3", NS, "?%a9=", NS, "#%c3%a9"])]
MODS = ["with_user", "with_password", "with_path", "with_query", "update_query", "extend_query", "with_fragment", "with_name", "with_suffix",
        "div", "joinpath", "join", "with_port", "with_scheme", "without_query_params"]


def families(tier):
    q = tier == "quick"
    fams = []
    nb = 9          # upper bound on the number of cross-writers + 'none' (the index wraps around)
    for sn, sk in SKELS:
        if q and sn not in ("auth", "escapes", "query"):
            continue
        for route in ("ctor", "encoded"):
            if q and route == "encoded" and sn not in ("auth", "escapes"):
                continue
            for b in range(nb):
                for a in range(NSLOTS):
                    if q and sn != "auth" and (a + 2 * b) % 9:
                        continue
                    if not q and sn != "auth" and (a + b) % 3:
                        continue
                    fams.append(Family("step/%s/%s/B=%d/A-slot=%d" % (sn, route, b, a), h_step, dict(skeleton=sk, route=route, b_index=b, a_slot=a)))
    qmods = ("with_query", "update_query", "extend_query", "without_query_params")
    pmods = ("with_path", "with_name", "with_suffix", "div", "joinpath", "join")
    light = [SKELS[0], ("path", ["http://h/a", NS, "/b.c?x=1#f"]), ("query", ["//h/p?", NS, "=v&k=v"])]
    if not q:
        light = light + [("frag", ["x://h:0/p#", NS]), SKELS[4], ("escapes", ["http://h/%c3", NS, "?%a9=v#%c3%a9"])]
    for si, (sn, sk) in enumerate(light):
        for mi, m in enumerate(MODS):
            if q and sn == "query" and m not in qmods:
                continue
            if q and sn == "path" and m not in pmods:
                continue
            for b in ((-1, (mi + si) % nb)[:2 if sn == "auth" else 1] if q else ((-1, (mi + si) % nb) if sn == "auth" else (-1,))):
                fams.append(Family("step/%s/modifier=%s/B=%d" % (sn, m, b), h_step, dict(skeleton=sk, route="ctor", b_index=b, a_slot=0, mod=m)))
    for w in ("make_netloc", "_encode_host", "split_netloc", "from_parts", "encode_url", "pre_encoded_url"):
        fams.append(Family("lru/%s" % w, h_lru, dict(which=w)))
    for name in C05.CONFIGS:
        kind, cfg = C05.CONFIGS[name]
        for n in (1, 2):
            if n == 2 and kind == "_Quoter" and (q or not cfg.get("requote", True)):
                continue
            fams.append(Family("kernel-history/%s/n=%d" % (name, n), h_kernel_history, dict(name=name, n=n), backends=("py", "c")))
        if kind == "_Unquoter" or cfg.get("requote", True):
            # an escape left pending by the first call must not leak into the second
            fams.append(Family("kernel-history/%s/escape-escape" % name, h_kernel_history,
                               dict(name=name, n=0, skeleton=["%", ("hex",), ("hex",)]), backends=("py", "c")))
            if not q and kind == "_Unquoter":
                fams.append(Family("kernel-history/%s/escape2-escape2" % name, h_kernel_history,
                                   dict(name=name, n=0, skeleton=[("ns",), "%", ("hex",), ("hex",)]), backends=("py",)))
    fams.append(Family("unpickle", h_unpickle, {}))
    fams.append(Family("value-history-concrete", h_value_history, {}))
    fams.append(Family("host-history-concrete", h_host_history, {}))
    return fams
