"""C03 -- the canonical string is a fixed point of parsing."""
from common import Family
import kernel as K

PROPERTY = "C03"
LEVEL = "model_checking"
BUDGET = {"quick": 240, "thorough": 2400}
BOUNDS = {"quick": "kernel: R(R(s)) == R(s) for all texts of <= 2 code points x 4 requoters x 2 backends",
          "thorough": "kernel: all texts of <= 3 code points x 4 requoters x 2 backends"}
ASSUMPTIONS = ["texts longer than the bound are outside the claim",
               "functools.lru_cache is bypassed (treated as a transparent memo)"]
MANIFEST_ENTRY = {
    "text": "Bounded model checking of idempotence: the real requoters are run twice symbolically (second pass over symbolic output); z3 decides "
            "equality of the two outputs on every feasible path.",
    "note": "Bounds in evidence.coverage.bounds. Trusted: sx engine + models (concordance-validated per path), z3, the pyx lowering.",
    "technique": "symbolic execution of the instrumented sources with z3 (QF_BV): second application of the real code as oracle",
}


def families(tier):
    n = 2 if tier == "quick" else 3
    fams = []
    for name in K.REQUOTERS:
        for k in range(1, n + 1):
            fams.append(Family("kernel/%s/n=%d" % (name, k), K.h_idempotent, dict(name=name, n=k), backends=("py", "c")))
    return fams
