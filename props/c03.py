"""C03 -- the canonical string is a fixed point of parsing."""
from common import Family
import kernel as K
import urlkit as U
import oracles as O
from common import call, outcome, all_of, any_of, sym_eq

PROPERTY = "C03"
LEVEL = "model_checking"
BUDGET = {"quick": 240, "thorough": 2400}
BOUNDS = {"quick": "kernel: R(R(s)) == R(s) for all texts of <= 2 code points x 4 requoters x 2 backends; URL level: 35 skeleton families with holes in "
                   "every component (escapes with symbolic hex digits incl. %2E, default / non-default ports, IPv6 / zone / IPv4 / mixed-case hosts, "
                   "reg-name holes), free strings of <= 3 code points, URLs made by build() and 10 modifiers; "
                   "ports that become / stop being the default through with_port, with_scheme and build on reg-name, IPv6, IPv6+zone and IPv4 hosts",
          "thorough": "kernel: all texts of <= 3 code points x 4 requoters x 2 backends"}
ASSUMPTIONS = ["valid input (transcribed from the grammar, each a counted assumption): an RFC scheme if any; free text contains no ':' '[' ']' '@' "
               "or backslash (path-noscheme, balanced brackets around an IP literal); reg-name holes are drawn from the reg-name alphabet",
               "the re-parsed URL is compared on scheme, raw_user, raw_password, raw_host, port, raw_path, raw_query_string, raw_fragment and str()",
               "texts longer than the bound are outside the claim",
               "functools.lru_cache is bypassed (treated as a transparent memo)"]
MANIFEST_ENTRY = {
    "text": "Bounded model checking of idempotence: the real requoters are run twice symbolically (second pass over symbolic output); z3 decides "
            "equality of the two outputs on every feasible path.",
    "note": "Bounds in evidence.coverage.bounds. Trusted: sx engine + models (concordance-validated per path), z3, the pyx lowering.",
    "technique": "symbolic execution of the instrumented sources with z3 (QF_BV): second application of the real code as oracle",
}


NS = ("ns",)
HEX = ("hex",)
USES_NETLOC = ("", "ftp", "http", "gopher", "nntp", "telnet", "imap", "wais", "file", "mms", "https", "shttp", "snews", "prospero", "rtsp", "rtspu",
               "rsync", "svn", "svn+ssh", "sftp", "nfs", "git", "git+ssh", "ws", "wss", "itms-services")


def reparse(ctx, u, tag):
    """URL(str(u)) has the same string form and the same components"""
    P = ctx.P
    t = call(str, u)
    ctx.check("str-no-exception:" + tag, t[0] == "ok", t[1])
    ctx.observe("str:" + tag, t[1])
    ctx.note("u_scheme", u._scheme)
    ctx.note("u_netloc", u._netloc)
    ctx.note("u_path", u._path)
    r2 = call(P.URL, t[1])
    ctx.observe("reparse:" + tag, outcome(r2))
    if r2[0] == "excluded":
        return
    ctx.check("canonical-string-parses:" + tag, r2[0] == "ok", r2[1])
    u2 = r2[1]
    ctx.check("same-string:" + tag, sym_eq(str(u2), t[1]))
    for a in ("scheme", "raw_user", "raw_password", "raw_host", "port", "raw_path", "raw_query_string", "raw_fragment"):
        va = call(lambda: getattr(u, a))
        vb = call(lambda: getattr(u2, a))
        if va[0] == "excluded" or vb[0] == "excluded":
            continue
        ctx.check("same-%s:%s" % (a, tag), va[0] == vb[0] and (va[0] != "ok" or sym_eq(va[1], vb[1])), a)


def h_fixed_point(ctx, skeleton, assume_kind=None):
    P = ctx.P
    s = U.text(ctx, skeleton)
    if assume_kind == "free":
        # valid input: an RFC scheme if any, no ':' in the first segment of a schemeless reference, no brackets / '@' games
        ctx.assume(all_of([c not in ":[]@\\" for c in s]) if len(s) else True, "free text without ':' '[' ']' '@' and backslash")
    r = call(P.URL, s)
    ctx.observe("URL", outcome(r))
    if r[0] != "ok":
        return
    reparse(ctx, r[1], "ctor")


def h_built(ctx, skeleton, route):
    P = ctx.P
    t = U.text(ctx, skeleton)
    base = P.URL("http://u:p@h:81/a/b?x=1#f")
    ops = {
        "build": lambda: P.URL.build(scheme="http", host="h", user=t, path="/" + t, query_string=t, fragment=t),
        "build-noauth": lambda: P.URL.build(path="/" + t, query_string=t),
        "with_path": lambda: base.with_path(t), "with_query": lambda: base.with_query(t), "with_fragment": lambda: base.with_fragment(t),
        "with_user": lambda: base.with_user(t), "div": lambda: base / t, "with_name": lambda: base.with_name(t),
        "join": lambda: base.join(P.URL(t)), "relative": lambda: P.URL("http://h//x/" + t).relative(), "with_scheme": lambda: P.URL("http://h/" + t).with_scheme("x"),
    }
    r = call(ops[route])
    ctx.observe(route, outcome(r))
    if r[0] != "ok":
        return
    reparse(ctx, r[1], route)


URL_SKELS = [
    ("path2", ["http://h/", NS, NS]), ("path-esc", ["http://h/a/%", HEX, HEX, NS]), ("path-dot-esc", ["http://h/a/%2", ("in", "eE5"), "%2", ("in", "eEf"), "/b"]),
    ("query2", ["http://h/p?", NS, NS]), ("query-esc", ["http://h/?%", HEX, HEX, "=", NS]), ("frag2", ["http://h/p#", NS, NS]),
    ("userinfo", ["http://", ("in", "aA%:~!$&'()*+,;=-._"), ("in", "aA%4:~!$"), ("in", "1fF:@"), "@h/"]), ("userinfo-esc", ["http://u%", HEX, HEX, ":p%", HEX, HEX, "@h"]),
    ("port2", ["http://h:", ("in", "0123456789"), ("in", "0123456789"), "/p"]), ("port-https", ["https://h:44", ("in", "0123456789"), "?q"]),
    ("default-port-http", ["http://h:80/", NS]), ("default-port-https", ["https://u@h:443/", NS, "?q"]), ("default-port-ws", ["ws://h:80", ("in", "/?#")]),
    ("default-port-ftp", ["ftp://h:21/", NS]), ("port-0", ["http://h:0/", NS]), ("userinfo-port-0", ["http://u", ("in", ":@a"), "@h:0/", NS]),
    ("userinfo-esc-default-port", ["http://u%", HEX, HEX, ":p%4", ("in", "0aA"), "@h:80/"]),
    ("ipv6-default-port", ["http://[::1]:80/", NS]), ("ipv6-default-port-userinfo", ["https://u:", ("in", "pP%~!"), "@[2001:DB8::1]:443/p?q"]),
    ("ipv4-default-port", ["ws://1.2.3.4:80", ("in", "/?#")]), ("ipv6-zone-default-port", ["ftp://[fe80::1%25eth0]:21/", NS]),
    ("ipv6", ["http://[::1]:8/", NS, "?", NS]), ("ipv6-zone", ["http://[fe80::1%25e", ("in", "tT0.-"), "h0]/p"]), ("ipv4-upper", ["HTTP://1.2.3.4/", NS]),
    ("host-case", ["hTTp://EXAMPLE.c", ("in", "oO0-"), "m:80/", NS]), ("regname", ["http://g", ("in", "aZ-._~!$&'()*+,;=%"), ("in", "aZ4-._~"), ("in", "bF1"), "c/"]),
    ("escaped-colon-first-segment", [("in", "Na1."), "%3", ("in", "Aa9"), NS]), ("netpath", ["//h/", NS, NS]), ("rooted", ["/a", NS, NS, NS]), ("scheme-rootless", ["http:", NS, NS]), ("other-scheme-rootless", ["x:", NS, NS]),
    ("other-scheme-slashes", ["foo:////", NS]), ("slashes", ["////", NS]), ("triple-slash", ["http:///", NS]), ("empty-auth-q", ["x://?", NS]),
]


def h_port_routes(ctx, host):
    """a port that becomes (or stops being) the scheme default through with_port / with_scheme / build, for each host kind"""
    P = ctx.P
    t = ctx.str("t", 1, no_surrogates=True)
    hs = "[" + host + "]" if ":" in host else host
    for scheme, other in (("http", "https"), ("https", "ws"), ("ftp", "x"), ("x", "http")):
        base = call(P.URL, scheme + "://u@" + hs + "/" + t)
        if base[0] != "ok":
            ctx.observe("base", outcome(base))
            continue
        for port in (0, 21, 80, 443, 8080):
            r = call(base[1].with_port, port)
            ctx.observe("with_port", outcome(r))
            if r[0] != "ok":
                continue
            reparse(ctx, r[1], "with_port")
            m = call(r[1].with_scheme, other)
            if m[0] == "ok":
                reparse(ctx, m[1], "with_port-with_scheme")
            b = call(lambda: P.URL.build(scheme=other, host=host, port=port, path="/" + t))
            if b[0] == "ok":
                reparse(ctx, b[1], "build-port")


def families(tier):
    n = 2 if tier == "quick" else 3
    fams = []
    for name in K.REQUOTERS:
        for k in range(1, n + 1):
            fams.append(Family("kernel/%s/n=%d" % (name, k), K.h_idempotent, dict(name=name, n=k), backends=("py", "c")))
    q = tier == "quick"
    for nm, sk in URL_SKELS:
        fams.append(Family("url/%s" % nm, h_fixed_point, dict(skeleton=sk), backends=("py", "c") if nm in ("path-esc", "query-esc", "userinfo-esc") else ("py",)))
    for k in range(0, (3 if q else 4) + 1):
        fams.append(Family("url/free/n=%d" % k, h_fixed_point, dict(skeleton=[NS] * k, assume_kind="free")))
    for host in ("h", "::1", "1.2.3.4", "fe80::1%eth0"):
        fams.append(Family("made/port-routes/%s" % host, h_port_routes, dict(host=host)))
    for route in ("build", "build-noauth", "with_path", "with_query", "with_fragment", "with_user", "div", "with_name", "join", "relative", "with_scheme"):
        for nm, sk in (("free1", [NS]), ("esc", ["%", HEX, HEX])) + (() if q else (("free2", [NS, NS]),)):
            fams.append(Family("made/%s/%s" % (route, nm), h_built, dict(skeleton=sk, route=route)))
    return fams
