"""C18 -- human_repr() is readable and round-trips."""
from common import Family, call, outcome, all_of, any_of, sym_eq
import urlkit as U

PROPERTY = "C18"
LEVEL = "model_checking"
BUDGET = {"quick": 240, "thorough": 2400}
BOUNDS = {"quick": "URL.build(...) with one text component free at a time, 1 code point (user, password: ASCII; path, query key, query value, "
                   "fragment: all of Unicode without lone surrogates; fragment also 2 code points) x hosts {reg-name; IDN, IPv4, IPv6 for user, path, "
                   "query value}; path and fragment free together",
          "thorough": "<= 2 code points per free component (reg-name and IPv6 hosts; 1 on IDN and IPv4); five pairs of components free together"}
ASSUMPTIONS = ["user/password holes are ASCII: a non-ASCII character in the authority goes through the NFKC screen (unicodedata, C code), which is "
               "not symbolically executed - cut and counted",
               "hosts are concrete (IDNA is not symbolically executed)", "lone surrogates are excluded (they cannot be supplied as decoded values)",
               "a path segment containing '/' cannot be supplied through build(), so '%2F' is outside the quantifier",
               "query read-back goes through the models of urllib.parse.parse_qsl and multidict (DESIGN 2.4), validated per path by concordance"]
MANIFEST_ENTRY = {
    "text": "Bounded model checking: for URLs built from decoded components chosen by the solver (reserved delimiters of every component, '%', "
            "controls and non-printables via the interpreter's isprintable table, non-BMP), z3 decides on every path that URL(u.human_repr()) == u "
            "and that printable non-ASCII text appears unescaped.",
    "note": "Bounds in evidence.coverage.bounds. Trusted: sx engine + models of parse_qsl/quote/multidict (concordance-validated per path), z3.",
    "technique": "symbolic execution of the instrumented yarl source with z3 (QF_BV): round trip through human_repr and the real parser",
}
HOSTS = {"reg": "example.com", "idn": "пример.рф", "v4": "127.0.0.1", "v6": "::1"}


def h_roundtrip(ctx, host, free):
    """free: dict component -> number of free code points"""
    P = ctx.P
    t = {}
    for comp, n in free.items():
        if comp == "nouser":
            continue
        if comp in ("user", "password"):
            t[comp] = ctx.str(comp, n, lo=0, hi=127)
        else:
            t[comp] = ctx.str(comp, n, no_surrogates=True)
    args = dict(scheme="http", host=HOSTS[host], user=t.get("user", None if free.get("nouser") else "us"), password=t.get("password", "pw"),
                path="/" + t["path"] if "path" in t else "/pa/th", fragment=t.get("fragment", "fr"))
    if "qkey" in t or "qval" in t:
        args["query"] = [(t.get("qkey", "k"), t.get("qval", "v")), ("z", "1")]
    else:
        args["query"] = {"k": "v"}
    if "path" in t:
        ctx.assume("/" not in t["path"], "a '/' inside a segment cannot be supplied through build()")
    r = call(lambda: P.URL.build(**args))
    ctx.observe("build", outcome(r))
    if r[0] != "ok":
        ctx.check("only-ValueError", r[0] == "excluded" or r[1] == "ValueError", r[1])
        return
    u = r[1]
    hr = call(u.human_repr)
    ctx.observe("human_repr", outcome(hr, value=True))
    ctx.check("human_repr-no-exception", hr[0] in ("ok", "excluded"), hr[1])
    if hr[0] != "ok":
        return
    text = hr[1]
    back = call(P.URL, text)
    ctx.observe("reparse", outcome(back))
    if back[0] == "excluded":
        return
    ctx.check("human_repr-parses", back[0] == "ok", back[1])
    ctx.check("round-trip", back[1] == u)
    # readable: printable non-ASCII text is shown as is
    for comp, s in t.items():
        for c in s:
            shown = any_of([c < "\x80", c.isprintable() == False, c in text])  # noqa: E712
            ctx.check("printable-non-ascii-shown-unescaped:" + comp, shown)
    if host == "idn":
        ctx.check("idn-host-decoded", HOSTS["idn"] in text)


def h_concrete_userinfo(ctx):
    """NOT part of the solver claim (the NFKC screen is C code): non-ASCII userinfo whose NFKC form differs but contains no
    delimiter must round-trip; concrete list"""
    P = ctx.P
    for ch in ("\u2122", "\u00b2", "\ufb01", "\uff21", "\u00e9", "\u4e2d", "\U0001f600", "\u2026"):
        for kw in (dict(user="a" + ch), dict(user="u", password=ch + "b"), dict(password=ch)):
            u = P.URL.build(scheme="http", host="example.com", path="/p", **kw)
            r = call(lambda: P.URL(u.human_repr()))
            ctx.check("non-ascii-userinfo-round-trips", r[0] == "ok" and r[1] == u, (hex(ord(ch)), sorted(kw), r[:2]))
    ctx.observe("done", True)


def families(tier):
    q = tier == "quick"
    fams = []
    comps = ("user", "password", "path", "qkey", "qval", "fragment")
    for host in HOSTS:
        for comp in comps:
            for n in (1, 2):
                if q and host != "reg" and (n == 2 or comp not in ("user", "path", "qval")):
                    continue
                if q and n == 2 and comp != "fragment":
                    continue
                if not q and n == 2 and host in ("idn", "v4"):
                    continue
                fams.append(Family("%s/%s/n=%d" % (host, comp, n), h_roundtrip, dict(host=host, free={comp: n})))
    for comp in ("qkey", "qval", "fragment", "path", "password", "user"):
        fams.append(Family("reg/%s/n=0" % comp, h_roundtrip, dict(host="reg", free={comp: 0})))
    fams.append(Family("reg/password-without-user/n=1", h_roundtrip, dict(host="reg", free={"password": 1, "nouser": 1})))
    if not q:
        fams.append(Family("reg/password-without-user/n=2", h_roundtrip, dict(host="v6", free={"password": 2, "nouser": 1})))
    fams.append(Family("nfkc-unstable-userinfo-concrete", h_concrete_userinfo, {}))
    pairs = [("user", "password"), ("path", "fragment"), ("qkey", "qval"), ("path", "qkey"), ("password", "path")]
    for a, b in (pairs[1:2] if q else pairs):
        fams.append(Family("reg/%s+%s" % (a, b), h_roundtrip, dict(host="reg", free={a: 1, b: 1})))

    return fams
