"""URL-level helpers for the harnesses (loaded through the instrumenter)."""
import inspect
from common import call, all_of, any_of, sym_eq

HEXU = "0123456789ABCDEF"
HEXA = "0123456789ABCDEFabcdef"


def text(ctx, skeleton, prefix="h"):
    """assemble text from a skeleton: str = concrete part, None = free code point, 'X' alone = hex-digit-ish hole
    (0-9A-Fa-f and the characters between), ('in', alphabet) = hole over an alphabet, ('ns',) = free non-surrogate"""
    out = ""
    k = 0
    for part in skeleton:
        if part is None:
            out = out + ctx.str("%s%d" % (prefix, k), 1)
            k += 1
        elif isinstance(part, tuple):
            if part[0] == "in":
                out = out + ctx.str("%s%d" % (prefix, k), 1, lo=0, hi=127, alphabet=part[1])
            elif part[0] == "ns":
                out = out + ctx.str("%s%d" % (prefix, k), 1, no_surrogates=True)
            elif part[0] == "hex":
                c = ctx.str("%s%d" % (prefix, k), 1, lo=48, hi=102)
                ctx.assume(c in HEXA, "hex digit")
                out = out + c
            else:
                raise ValueError(part)
            k += 1
        else:
            out = out + part
    return out


RAW = ("scheme", "raw_user", "raw_password", "raw_host", "explicit_port", "raw_path", "raw_query_string", "raw_fragment")


def raw_components(u):
    """('ok', tuple of the eight raw components) or ('exc', name, exc)"""
    return call(lambda: tuple(getattr(u, a) for a in RAW))


def as_str(u):
    return call(str, u)


def no_dot_segment(raw_path):
    """no '.' or '..' segment in a raw path (one term)"""
    conds = []
    for seg in raw_path.split("/"):
        conds.append(all_of([sym_eq(seg, ".") == False, sym_eq(seg, "..") == False]))  # noqa: E712
    return all_of(conds)


# accessors whose evaluation needs IDNA decoding of the host: evaluated last so that the counted exclusion cuts nothing else
IDNA_LAST = ("host", "authority", "human_repr")


def discover(P):
    """public properties and nullary public methods of the live URL class"""
    props, methods = [], []
    for name in sorted(dir(P.URL)):
        if name.startswith("_"):
            continue
        attr = inspect.getattr_static(P.URL, name)
        if isinstance(attr, (classmethod, staticmethod)):
            continue
        if callable(attr) and not hasattr(attr, "__get__"):
            continue
        if inspect.isfunction(attr):
            sig = inspect.signature(attr)
            required = [p for p in list(sig.parameters.values())[1:] if p.default is p.empty and p.kind in (p.POSITIONAL_ONLY, p.POSITIONAL_OR_KEYWORD)]
            if not required and not any(p.kind is p.VAR_POSITIONAL for p in sig.parameters.values()):
                methods.append(name)
        else:
            props.append(name)
    order = [n for n in props + methods if n not in IDNA_LAST] + [n for n in IDNA_LAST if n in props + methods]
    return order, set(methods)


