"""Kernel-level harnesses over the quoter / unquoter instances that the live yarl/_quoters.py constructs.

The component policy used as oracle is written down here from RFC 3986 and the property statements -- it is NOT read
from yarl (a mutated table in _quoters.py / _quoting_py.py / _quoting_c.pyx cannot move the oracle)."""
from common import Family, call, all_of, any_of, sym_eq
import oracles as O

# name in yarl._quoters -> (component, requote, literal delimiters whose status must be preserved, qs)
QUOTERS = {
    "QUOTER": ("userinfo", False, "", False),
    "REQUOTER": ("userinfo", True, "", False),
    "PATH_QUOTER": ("path", False, "/", False),
    "PATH_REQUOTER": ("path", True, "/", False),
    "QUERY_QUOTER": ("query", False, "=&;", True),
    "QUERY_REQUOTER": ("query", True, "=&;", True),
    "QUERY_PART_QUOTER": ("querypart", False, "", True),
    "FRAGMENT_QUOTER": ("fragment", False, "", False),
    "FRAGMENT_REQUOTER": ("fragment", True, "", False),
}
REQUOTERS = ["REQUOTER", "PATH_REQUOTER", "QUERY_REQUOTER", "FRAGMENT_REQUOTER"]
# characters that may appear literally in the canonical output of each component (RFC 3986 section 3)
LITERAL = {
    "userinfo": O.UNRESERVED + O.SUB_DELIMS,
    "path": O.PCHAR + "/",
    "query": O.PCHAR + "/?",
    "querypart": O.UNRESERVED + "!$'()*," + ":@/?" + "+",     # '+' only as the encoding of a space
    "fragment": O.PCHAR + "/?",
    "url": O.UNRESERVED + O.SUB_DELIMS + O.GEN_DELIMS,
}
# escapes a canonical text may keep although the character is legal literally (either-way delimiters)
EITHER = {"userinfo": "", "path": "/+", "query": "=+&;", "querypart": "", "fragment": ""}

UNQUOTERS = {
    "UNQUOTER": dict(qs=False, keep=""),
    "PATH_UNQUOTER": dict(qs=False, keep=""),
    "PATH_SAFE_UNQUOTER": dict(qs=False, keep="/%"),
    "QS_UNQUOTER": dict(qs=True, keep=""),
}


def quoter(ctx, name):
    return getattr(ctx.P.quoters, name)


def wellformed(out, comp):
    """C01: ASCII, allowed literals or '%', every '%' followed by two upper-case hex digits (one term)"""
    conds = []
    n = len(out)
    lit = LITERAL[comp] + "%"
    for i in range(n):
        c = out[i]
        conds.append(c in lit)
        if i + 2 < n:
            conds.append(any_of([c != "%", all_of([out[i + 1] in O.HEXDIG_UPPER, out[i + 2] in O.HEXDIG_UPPER])]))
        else:
            conds.append(c != "%")
    return all_of(conds)


def h_wellformed(ctx, name, n):
    """C01 kernel: Q(s) is well-formed ASCII for every s"""
    comp, requote, delims, qs = QUOTERS[name]
    s = ctx.str("s", n)
    r = call(quoter(ctx, name), s)
    ctx.observe("out", r[:2])
    ctx.check("no-exception", r[0] == "ok", r[1])
    ctx.check("wellformed-ascii", wellformed(r[1], comp))


def h_meaning(ctx, name, n):
    """C02 kernel: token decoding of Q(s) equals token decoding of s (lone surrogates excepted)"""
    comp, requote, delims, qs = QUOTERS[name]
    s = ctx.str("s", n, no_surrogates=True)
    r = call(quoter(ctx, name), s)
    ctx.observe("out", r[:2])
    ctx.check("no-exception", r[0] == "ok", r[1])
    out = r[1]
    tin = O.pct_tokens(s, delims, qs and comp == "query", escapes=requote)
    tout = O.pct_tokens(out, delims, qs, escapes=True)
    ctx.check("same-tokens", sym_eq(tin, tout))


def h_idempotent(ctx, name, n):
    """C03 kernel: R(R(s)) == R(s)"""
    s = ctx.str("s", n)
    q = quoter(ctx, name)
    r = call(q, s)
    ctx.check("no-exception", r[0] == "ok", r[1])
    r2 = call(q, r[1])
    ctx.observe("out", (r[1], r2[:2]))
    ctx.check("no-exception-2", r2[0] == "ok", r2[1])
    ctx.check("idempotent", sym_eq(r2[1], r[1]))


def canonical_text(ctx, comp, shape, qs, prefix):
    """a text of the canonical language of the component: shape is a string over 'L' (a literal of the component) and
    'E' (an upper-case escape of a must-escape byte or of an either-way delimiter); membership is decided by the solver"""
    lit = LITERAL[comp]
    s = ""
    k = 0
    for sh in shape:
        if sh == "L":
            c = ctx.str("%sl%d" % (prefix, k), 1, lo=0, hi=127)
            ctx.assume(c in lit, "literal of the component")
            if qs:
                ctx.assume(c != " ", "qs literal")
            s = s + c
        else:
            x = ctx.str("%sx%d" % (prefix, k), 1, lo=48, hi=70)
            y = ctx.str("%sy%d" % (prefix, k), 1, lo=48, hi=70)
            ctx.assume(all_of([x in O.HEXDIG_UPPER, y in O.HEXDIG_UPPER]), "upper-case hex")
            b = O.hexval(x) * 16 + O.hexval(y)
            # canonical escape: the byte must not be a literal of the component, or is an either-way delimiter
            isl = any_of([b == ord(ch) for ch in lit if ch not in EITHER[comp]])
            ctx.assume(isl == False, "escape of a must-escape byte or an either-way delimiter")  # noqa: E712
            s = s + "%" + x + y
        k += 1
    return s


def h_canonical_fixed(ctx, name, shape):
    """C04 kernel: every text of the canonical language of the component is returned unchanged."""
    comp, requote, delims, qs = QUOTERS[name]
    s = canonical_text(ctx, comp, shape, qs, "")
    r = call(quoter(ctx, name), s)
    ctx.observe("out", r[:2])
    ctx.check("no-exception", r[0] == "ok", r[1])
    ctx.check("unchanged", sym_eq(r[1], s))


def h_unquote(ctx, name, n, skeleton=None):
    """C06 kernel: the unquoter equals the reference text decoder"""
    cfg = UNQUOTERS[name]
    if skeleton is None:
        s = ctx.str("s", n)
    else:
        s = ""
        k = 0
        for part in skeleton:
            if part is None:
                s = s + ctx.str("h%d" % k, 1)
                k += 1
            elif part == "X":
                s = s + ctx.str("h%d" % k, 1, lo=48, hi=102)
                k += 1
            else:
                s = s + part
    r = call(getattr(ctx.P.quoters, name), s)
    ctx.observe("out", r[:2])
    ctx.check("no-exception", r[0] == "ok", r[1])
    exp = O.pct_decode_text(s, qs=cfg["qs"], keep=cfg["keep"])
    ctx.check("decoded-view", sym_eq(r[1], exp))


# write-side quoter -> read-side unquoter pairs named in C06's anchors
PAIRS = [("QUOTER", "UNQUOTER"), ("PATH_QUOTER", "PATH_UNQUOTER"), ("FRAGMENT_QUOTER", "UNQUOTER"),
         ("QUERY_PART_QUOTER", "QS_UNQUOTER")]


def h_roundtrip(ctx, qname, uname, n):
    """C06 kernel: U(Q(t)) == t for every decoded text t without lone surrogates"""
    t = ctx.str("t", n, no_surrogates=True)
    r = call(quoter(ctx, qname), t)
    ctx.check("no-exception", r[0] == "ok", r[1])
    u = call(getattr(ctx.P.quoters, uname), r[1])
    ctx.observe("out", (r[1], u[:2]))
    ctx.check("no-exception-2", u[0] == "ok", u[1])
    if uname == "QS_UNQUOTER":
        # the qs unquoter keeps '+', '=', '&', ';' escaped (they delimit pairs); parse_qsl finishes the job (URL level)
        ctx.assume(all_of([c not in "+=&;" for c in t]) if n else True, "no pair delimiter in the text")
    ctx.check("reads-back", sym_eq(u[1], t))
