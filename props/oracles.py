"""Independent oracles (never import yarl).  Loaded through the instrumenter so they run on symbolic values too.

rfc_split / split_authority: RFC 3986 Appendix B after the documented pre-processing (C07).
remove_dot_segments / merge / resolve: RFC 3986 5.2.2-5.2.4 (C14, C15).
tables: RFC 3986 character classes per component (C01, C04).
pct_tokens / pct_decode_text: reference percent-decoding (C02, C06).
"""
ALPHA = "abcdefghijklmnopqrstuvwxyzABCDEFGHIJKLMNOPQRSTUVWXYZ"
DIGIT = "0123456789"
HEXDIG_UPPER = "0123456789ABCDEF"
HEXDIG = "0123456789ABCDEFabcdef"
UNRESERVED = ALPHA + DIGIT + "-._~"
SUB_DELIMS = "!$&'()*+,;="
GEN_DELIMS = ":/?#[]@"
PCHAR = UNRESERVED + SUB_DELIMS + ":@"
SCHEME_CHARS = ALPHA + DIGIT + "+-."
C0_SPACE = "".join(chr(i) for i in range(0x21))

# characters that may appear literally in the canonical form of each component (RFC 3986 sec. 3)
ALLOWED = {
    "user": UNRESERVED + SUB_DELIMS,            # userinfo without ':' (':' separates the password)
    "password": UNRESERVED + SUB_DELIMS + ":",
    "path": PCHAR + "/",
    "query": PCHAR + "/?",
    "fragment": PCHAR + "/?",
}


def preprocess(s):
    i = 0
    n = len(s)
    while i < n and s[i] in C0_SPACE:
        i += 1
    s = s[i:]
    out = ""
    for c in s:
        if c in "\t\r\n":
            continue
        out = out + c
    return out


def rfc_split(s):
    """(scheme, authority|None, path, query|None, fragment|None) of the pre-processed text"""
    s = preprocess(s)
    n = len(s)
    i = 0
    while i < n and s[i] not in ":/?#":
        i += 1
    scheme = ""
    pos = 0
    if i < n and i > 0 and s[i] == ":":
        ok = True
        for c in s[:i]:
            if c not in SCHEME_CHARS:
                ok = False
                break
        if ok:
            scheme = s[:i].lower()
            pos = i + 1
    authority = None
    if s[pos:pos + 2] == "//":
        j = pos + 2
        while j < n and s[j] not in "/?#":
            j += 1
        authority = s[pos + 2:j]
        pos = j
    k = pos
    while k < n and s[k] not in "?#":
        k += 1
    path = s[pos:k]
    query = None
    if k < n and s[k] == "?":
        m = k + 1
        while m < n and s[m] != "#":
            m += 1
        query = s[k + 1:m]
        k = m
    fragment = None
    if k < n:
        fragment = s[k + 1:]
    return scheme, authority, path, query, fragment


def split_authority(a):
    """(user|None, password|None, host|None, port_text) -- last '@', first ':' of userinfo, ':' after host / ']'"""
    at = -1
    for i in range(len(a) - 1, -1, -1):
        if a[i] == "@":
            at = i
            break
    user = password = None
    hostport = a
    if at >= 0:
        userinfo = a[:at]
        hostport = a[at + 1:]
        c = userinfo.find(":")
        if c >= 0:
            user = userinfo[:c]
            password = userinfo[c + 1:]
        else:
            user = userinfo
    lb = hostport.find("[")
    if lb >= 0:
        rest = hostport[lb + 1:]
        rb = rest.find("]")
        if rb >= 0:
            host = rest[:rb]
            after = rest[rb + 1:]
        else:
            host = rest
            after = ""
        c = after.find(":")
        port_text = after[c + 1:] if c >= 0 else ""
    else:
        c = hostport.find(":")
        if c >= 0:
            host = hostport[:c]
            port_text = hostport[c + 1:]
        else:
            host = hostport
            port_text = ""
    return (user if user else None), password, (host if host else None), port_text


def remove_dot_segments(path):
    """RFC 3986 5.2.4, literal transcription of the input-buffer/output-buffer algorithm"""
    inp = path
    out = ""
    while inp:
        if inp[:3] == "../":
            inp = inp[3:]
        elif inp[:2] == "./":
            inp = inp[2:]
        elif inp[:3] == "/./":
            inp = inp[2:]
        elif inp == "/.":
            inp = "/"
        elif inp[:4] == "/../":
            inp = inp[3:]
            out = _drop_last(out)
        elif inp == "/..":
            inp = "/"
            out = _drop_last(out)
        elif inp == "." or inp == "..":
            inp = ""
        else:
            j = inp.find("/", 1)
            if j < 0:
                out = out + inp
                inp = ""
            else:
                out = out + inp[:j]
                inp = inp[j:]
    return out


def _drop_last(out):
    j = -1
    for i in range(len(out) - 1, -1, -1):
        if out[i] == "/":
            j = i
            break
    return out[:j] if j >= 0 else ""


def merge(base_has_authority, base_path, ref_path):
    """RFC 3986 5.2.3"""
    if base_has_authority and not base_path:
        return "/" + ref_path
    j = -1
    for i in range(len(base_path) - 1, -1, -1):
        if base_path[i] == "/":
            j = i
            break
    return base_path[:j + 1] + ref_path


def resolve(base, ref):
    """RFC 3986 5.2.2, non-strict.  base/ref: (scheme, authority|None, path, query|None, fragment|None)"""
    bs, ba, bp, bq, bf = base
    rs, ra, rp, rq, rf = ref
    if rs and rs == bs:
        rs = ""
    if rs:
        return rs, ra, remove_dot_segments(rp), rq, rf
    if ra is not None:
        return bs, ra, remove_dot_segments(rp), rq, rf
    if not rp:
        tp = bp
        tq = rq if rq is not None else bq
    else:
        if rp[0] == "/":
            tp = remove_dot_segments(rp)
        else:
            tp = remove_dot_segments(merge(ba is not None, bp, rp))
        tq = rq
    return bs, ba, tp, tq, rf


def is_upper_hex(c):
    return c in HEXDIG_UPPER


def hexval(c):
    """value of one hex digit character (caller guarantees c in HEXDIG)"""
    o = ord(c)
    if c in DIGIT:
        return o - 48
    if c in "ABCDEF":
        return o - 55
    return o - 87
