"""Independent oracles (never import yarl).  Loaded through the instrumenter so they run on symbolic values too.

rfc_split / split_authority: RFC 3986 Appendix B after the documented pre-processing (C07).
remove_dot_segments / merge / resolve: RFC 3986 5.2.2-5.2.4 (C14, C15).
tables: RFC 3986 character classes per component (C01, C04).
pct_tokens / pct_decode_text: reference percent-decoding (C02, C06).
"""
ALPHA = "abcdefghijklmnopqrstuvwxyzABCDEFGHIJKLMNOPQRSTUVWXYZ"
DIGIT = "0123456789"
HEXDIG_UPPER = "0123456789ABCDEF"
HEXDIG = "0123456789ABCDEFabcdef"
UNRESERVED = ALPHA + DIGIT + "-._~"
SUB_DELIMS = "!$&'()*+,;="
GEN_DELIMS = ":/?#[]@"
PCHAR = UNRESERVED + SUB_DELIMS + ":@"
SCHEME_CHARS = ALPHA + DIGIT + "+-."
C0_SPACE = "".join(chr(i) for i in range(0x21))

# characters that may appear literally in the canonical form of each component (RFC 3986 sec. 3)
ALLOWED = {
    "user": UNRESERVED + SUB_DELIMS,            # userinfo without ':' (':' separates the password)
    "password": UNRESERVED + SUB_DELIMS + ":",
    "path": PCHAR + "/",
    "query": PCHAR + "/?",
    "fragment": PCHAR + "/?",
}


def preprocess(s):
    i = 0
    n = len(s)
    while i < n and s[i] in C0_SPACE:
        i += 1
    s = s[i:]
    out = ""
    for c in s:
        if c in "\t\r\n":
            continue
        out = out + c
    return out


def rfc_split(s):
    """(scheme, authority|None, path, query|None, fragment|None) of the pre-processed text"""
    s = preprocess(s)
    n = len(s)
    i = 0
    while i < n and s[i] not in ":/?#":
        i += 1
    scheme = ""
    pos = 0
    if i < n and i > 0 and s[i] == ":":
        ok = True
        for c in s[:i]:
            if c not in SCHEME_CHARS:
                ok = False
                break
        if ok:
            scheme = s[:i].lower()
            pos = i + 1
    authority = None
    if s[pos:pos + 2] == "//":
        j = pos + 2
        while j < n and s[j] not in "/?#":
            j += 1
        authority = s[pos + 2:j]
        pos = j
    k = pos
    while k < n and s[k] not in "?#":
        k += 1
    path = s[pos:k]
    query = None
    if k < n and s[k] == "?":
        m = k + 1
        while m < n and s[m] != "#":
            m += 1
        query = s[k + 1:m]
        k = m
    fragment = None
    if k < n:
        fragment = s[k + 1:]
    return scheme, authority, path, query, fragment


def split_authority(a):
    """(user|None, password|None, host|None, port_text) -- last '@', first ':' of userinfo, ':' after host / ']'"""
    at = -1
    for i in range(len(a) - 1, -1, -1):
        if a[i] == "@":
            at = i
            break
    user = password = None
    hostport = a
    if at >= 0:
        userinfo = a[:at]
        hostport = a[at + 1:]
        c = userinfo.find(":")
        if c >= 0:
            user = userinfo[:c]
            password = userinfo[c + 1:]
        else:
            user = userinfo
    lb = hostport.find("[")
    if lb >= 0:
        rest = hostport[lb + 1:]
        rb = rest.find("]")
        if rb >= 0:
            host = rest[:rb]
            after = rest[rb + 1:]
        else:
            host = rest
            after = ""
        c = after.find(":")
        port_text = after[c + 1:] if c >= 0 else ""
    else:
        c = hostport.find(":")
        if c >= 0:
            host = hostport[:c]
            port_text = hostport[c + 1:]
        else:
            host = hostport
            port_text = ""
    return (user if user else None), password, (host if host else None), port_text


def remove_dot_segments(path):
    """RFC 3986 5.2.4, literal transcription of the input-buffer/output-buffer algorithm"""
    inp = path
    out = ""
    while inp:
        if inp[:3] == "../":
            inp = inp[3:]
        elif inp[:2] == "./":
            inp = inp[2:]
        elif inp[:3] == "/./":
            inp = inp[2:]
        elif inp == "/.":
            inp = "/"
        elif inp[:4] == "/../":
            inp = inp[3:]
            out = _drop_last(out)
        elif inp == "/..":
            inp = "/"
            out = _drop_last(out)
        elif inp == "." or inp == "..":
            inp = ""
        else:
            j = inp.find("/", 1)
            if j < 0:
                out = out + inp
                inp = ""
            else:
                out = out + inp[:j]
                inp = inp[j:]
    return out


def _drop_last(out):
    j = -1
    for i in range(len(out) - 1, -1, -1):
        if out[i] == "/":
            j = i
            break
    return out[:j] if j >= 0 else ""


def merge(base_has_authority, base_path, ref_path):
    """RFC 3986 5.2.3"""
    if base_has_authority and not base_path:
        return "/" + ref_path
    j = -1
    for i in range(len(base_path) - 1, -1, -1):
        if base_path[i] == "/":
            j = i
            break
    return base_path[:j + 1] + ref_path


def resolve(base, ref):
    """RFC 3986 5.2.2, non-strict.  base/ref: (scheme, authority|None, path, query|None, fragment|None)"""
    bs, ba, bp, bq, bf = base
    rs, ra, rp, rq, rf = ref
    if rs and rs == bs:
        rs = ""
    if rs:
        return rs, ra, remove_dot_segments(rp), rq, rf
    if ra is not None:
        return bs, ra, remove_dot_segments(rp), rq, rf
    if not rp:
        tp = bp
        tq = rq if rq is not None else bq
    else:
        if rp[0] == "/":
            tp = remove_dot_segments(rp)
        else:
            tp = remove_dot_segments(merge(ba is not None, bp, rp))
        tq = rq
    return bs, ba, tp, tq, rf


def is_upper_hex(c):
    return c in HEXDIG_UPPER


def hexval(c):
    """value of one hex digit character (caller guarantees c in HEXDIG)"""
    o = ord(c)
    if c in DIGIT:
        return o - 48
    if c in "ABCDEF":
        return o - 55
    return o - 87


# ------------------------------------------------------------------ reference percent-decoding
def is_hex(c):
    return c in HEXDIG


def escape_at(s, i):
    """True iff s[i:i+3] is '%' HEX HEX"""
    if i + 2 >= len(s):
        return False
    if s[i] != "%":
        return False
    if s[i + 1] not in HEXDIG:
        return False
    return s[i + 2] in HEXDIG


def byte_at(s, i):
    return hexval(s[i + 1]) * 16 + hexval(s[i + 2])


def pct_tokens(s, delims="", qs=False, escapes=True):
    """Meaning of component text as a token list: ('b', byte) for data bytes, ('d', char) for a *literal*
    delimiter of the component.  An escape always yields a data byte (so '%2F' and '/' differ).
    qs: literal '+' and ' ' both mean a space byte.  escapes=False: the text is already decoded ('%' is data)."""
    out = []
    i = 0
    n = len(s)
    while i < n:
        if escapes and escape_at(s, i):
            out.append(("b", byte_at(s, i)))
            i += 3
            continue
        c = s[i]
        i += 1
        if c in delims:
            out.append(("d", c))
        elif qs and (c == " " or c == "+"):
            out.append(("b", 32))
        else:
            for b in c.encode("utf-8"):
                out.append(("b", b))
    return out


def utf8_seq(bs, k):
    """(code point, length) of the valid UTF-8 sequence starting at bs[k], or None (RFC 3629: no overlongs,
    no surrogates, <= U+10FFFF)"""
    b0 = bs[k]
    n = len(bs)
    if b0 < 0x80:
        return b0, 1
    if b0 < 0xC2:
        return None
    if b0 < 0xE0:
        if k + 1 < n and 0x80 <= bs[k + 1] <= 0xBF:
            return ((b0 & 0x1F) << 6) | (bs[k + 1] & 0x3F), 2
        return None
    if b0 < 0xF0:
        if k + 2 >= n:
            return None
        b1 = bs[k + 1]
        lo = 0x80
        hi = 0xBF
        if b0 == 0xE0:
            lo = 0xA0
        if b0 == 0xED:
            hi = 0x9F
        if not (lo <= b1 <= hi):
            return None
        if not (0x80 <= bs[k + 2] <= 0xBF):
            return None
        return ((b0 & 0x0F) << 12) | ((b1 & 0x3F) << 6) | (bs[k + 2] & 0x3F), 3
    if b0 < 0xF5:
        if k + 3 >= n:
            return None
        b1 = bs[k + 1]
        lo = 0x80
        hi = 0xBF
        if b0 == 0xF0:
            lo = 0x90
        if b0 == 0xF4:
            hi = 0x8F
        if not (lo <= b1 <= hi):
            return None
        if not (0x80 <= bs[k + 2] <= 0xBF):
            return None
        if not (0x80 <= bs[k + 3] <= 0xBF):
            return None
        return ((b0 & 0x07) << 18) | ((b1 & 0x3F) << 12) | ((bs[k + 2] & 0x3F) << 6) | (bs[k + 3] & 0x3F), 4
    return None


def pct_decode_text(s, qs=False, keep=""):
    """Reference decoded view: maximal runs of escapes are decoded as UTF-8; a byte that is not part of a complete
    valid sequence keeps its original three characters; qs: '+' is a space and decoded '+', '=', '&', ';' stay
    escaped; keep: decoded characters that stay escaped (path_safe keeps '/' and '%')."""
    out = ""
    i = 0
    n = len(s)
    while i < n:
        if escape_at(s, i):
            j = i
            bs = []
            while escape_at(s, j):
                bs.append(byte_at(s, j))
                j += 3
            k = 0
            while k < len(bs):
                r = utf8_seq(bs, k)
                if r is None:
                    out = out + s[i + 3 * k:i + 3 * k + 3]
                    k += 1
                    continue
                ch = chr(r[0])
                esc = None
                for d in (("+=&;" if qs else "") + keep):
                    if ch == d:
                        esc = "%" + HEXDIG_UPPER[ord(d) >> 4] + HEXDIG_UPPER[ord(d) & 15]
                        break
                out = out + (esc if esc is not None else ch)
                k += r[1]
            i = j
            continue
        c = s[i]
        i += 1
        if qs and c == "+":
            out = out + " "
        else:
            out = out + c
    return out


# scalar helpers are merged into one term instead of forking the caller (sx function-level merging)
for _f in (hexval, escape_at, byte_at, is_hex, is_upper_hex):
    _f._sx_pure = True
