"""C07 -- parsing is the RFC 3986 decomposition of the input."""
from common import Family, call, all_of, sym_eq
import oracles as O

PROPERTY = "C07"
LEVEL = "model_checking"
BUDGET = {"quick": 240, "thorough": 2400}
BOUNDS = {
    "quick": "free strings of <= 4 code points over all of Unicode; skeleton families with <= 3 free holes",
    "thorough": "free strings of <= 6 code points over all of Unicode; skeleton families with <= 4 free holes",
}
ASSUMPTIONS = [
    "strings longer than the stated bound and skeleton shapes other than the listed ones are outside the claim",
    "authority text containing non-ASCII characters is cut before the NFKC screen (unicodedata is C code), counted in assumption_cut_counts",
    "port texts that only Python's int() accepts (sign, underscore, whitespace, non-ASCII digits) are cut and counted",
    "scheme is recognised iff the text before the first ':' is non-empty and consists of ALPHA / DIGIT / '+' / '-' / '.' (what split_url documents)",
    "functools.lru_cache is bypassed (treated as a transparent memo)",
]
MANIFEST_ENTRY = {
    "text": "Bounded model checking of the real split_url/split_netloc/unsplit_result/URL(encoded=True) source: for every string within the "
            "length bound (all of Unicode, incl. controls and surrogates) and every skeleton family, z3 decides on each feasible path that the "
            "extracted components equal an independent Appendix-B/authority splitter; a witness of every path is re-run on the real build.",
    "note": "Bounds: see evidence.coverage.bounds. Trusted: the sx engine and its str/int models (validated per path by concordance with the "
            "real code), z3. Non-ASCII authorities (NFKC screen) and int()-only port spellings are cut and counted.",
    "technique": "symbolic execution of the instrumented yarl source with z3 (QF_BV) deciding every branch and postcondition, against an independent RFC 3986 splitter",
}
ANCHORS = ["_parse.py:split_url", "_parse.py:split_netloc", "_parse.py:unsplit_result", "_parse.py:make_netloc"]


def h_split(ctx, n, skeleton=None):
    """split_url(s) == Appendix-B oracle whenever a value is returned"""
    s = make_input(ctx, n, skeleton)
    P = ctx.P
    exp = O.rfc_split(s)
    if exp[1]:
        ctx.assume(exp[1].isascii() if not isinstance(exp[1], str) else exp[1].isascii(), "authority is ASCII (NFKC screen not modelled)")
    r = call(P.parse.split_url, s)
    ctx.observe("split_url", r[:2])
    if r[0] == "exc":
        # which exception type is C19's business; here: a refusal is only documented for bracketed authorities
        ctx.check("raises-only-for-brackets", exp[1] is not None and ("[" in exp[1] or "]" in exp[1]), r[1])
        return
    scheme, netloc, path, query, fragment = r[1]
    ctx.check("scheme", sym_eq(scheme, exp[0]))
    ctx.check("authority", sym_eq(netloc, exp[1] or ""))
    ctx.check("path", sym_eq(path, exp[2]))
    ctx.check("query", sym_eq(query, exp[3] or ""))
    ctx.check("fragment", sym_eq(fragment, exp[4] or ""))


def make_input(ctx, n, skeleton):
    if skeleton is None:
        return ctx.str("s", n)
    out = ""
    k = 0
    for part in skeleton:
        if part is None:
            out = out + ctx.str("h%d" % k, 1)
            k += 1
        else:
            out = out + part
    return out


def h_netloc(ctx, n, skeleton=None):
    """split_netloc(a) is the split at the last '@', first ':' of userinfo, ':' after host / ']'"""
    a = make_input(ctx, n, skeleton)
    P = ctx.P
    r = call(P.parse.split_netloc, a)
    ctx.observe("split_netloc", r[:2])
    user, password, host, port_text = O.split_authority(a)
    if r[0] == "excluded":
        return
    if r[0] == "exc":
        # documented: non-numeric or out-of-range port
        ctx.check("ValueError-only-for-port", r[1] == "ValueError" and bool(port_text), r[1])
        return
    u, p, h, port = r[1]
    ctx.check("user", sym_eq(u, user))
    ctx.check("password", sym_eq(p, password))
    ctx.check("host", sym_eq(h, host))
    if not port_text:
        ctx.check("port-absent", port is None)
    else:
        ctx.check("port-present", port is not None)
        v = call(int, port_text)
        if v[0] == "ok" and port is not None:
            ctx.check("port-value", sym_eq(port, v[1]))
            ctx.check("port-range", all_of([port >= 0, port <= 65535]))


def h_encoded(ctx, n, skeleton=None):
    """URL(s, encoded=True): raw components verbatim, and the raw accessors re-compose to str(url)"""
    s = make_input(ctx, n, skeleton)
    P = ctx.P
    exp = O.rfc_split(s)
    if exp[1]:
        ctx.assume(exp[1].isascii(), "authority is ASCII (NFKC screen not modelled)")
    r = call(P.URL, s, encoded=True)
    ctx.observe("URL", r[:1])
    if r[0] == "exc":
        # which exception type is C19's business; here: a refusal is only documented for bracketed authorities
        ctx.check("raises-only-for-brackets", exp[1] is not None and ("[" in exp[1] or "]" in exp[1]), r[1])
        return
    u = r[1]
    auth = exp[1] or ""
    ctx.observe("parts", (u.scheme, u.raw_authority, u.raw_path, u.raw_query_string, u.raw_fragment))
    ctx.check("scheme", sym_eq(u.scheme, exp[0]))
    ctx.check("raw_authority", sym_eq(u.raw_authority, auth))
    ctx.check("raw_path", sym_eq(u.raw_path, exp[2] if (exp[2] or not auth) else "/"))
    ctx.check("raw_query_string", sym_eq(u.raw_query_string, exp[3] or ""))
    ctx.check("raw_fragment", sym_eq(u.raw_fragment, exp[4] or ""))
    # user/password/host/port accessors are the split of the authority
    user, password, host, port_text = O.split_authority(auth)
    ru = call(lambda: (u.raw_user, u.raw_password, u.raw_host, u.explicit_port))
    ctx.observe("netloc-accessors", ru[:2])
    if ru[0] == "excluded":
        pass
    elif ru[0] == "ok":
        ctx.check("raw_user", sym_eq(ru[1][0], user))
        ctx.check("raw_password", sym_eq(ru[1][1], password))
        # an authority with an empty host has the host ''; None is for URLs without an authority
        ctx.check("raw_host", sym_eq(ru[1][2], host if host is not None else ("" if auth else None)))
        ctx.check("port-presence", (ru[1][3] is None) == (not port_text))
    else:
        ctx.check("accessor-ValueError-only-for-port", ru[1] == "ValueError" and bool(port_text), ru[1])
    # recomposition: str(url) is assembled from the raw accessors
    st = call(str, u)
    ctx.observe("str", st[:2])
    if st[0] == "ok":
        t = st[1]
        comp = ""
        if u.scheme:
            comp = u.scheme + ":"
        if auth or t[len(comp):len(comp) + 2] == "//":
            comp = comp + "//" + auth
        p = exp[2]
        comp = comp + p
        if exp[3]:
            comp = comp + "?" + exp[3]
        if exp[4]:
            comp = comp + "#" + exp[4]
        ctx.note("str", t)
        ctx.note("recomposed", comp)
        # (a) re-parsing str(url) in encoded mode gives the same raw components
        r2 = call(P.URL, t, encoded=True)
        if r2[0] == "ok":
            u2 = r2[1]
            ctx.check("recompose-authority", sym_eq(u2.raw_authority, u.raw_authority))
            ctx.check("recompose-query", sym_eq(u2.raw_query_string, u.raw_query_string))
            ctx.check("recompose-fragment", sym_eq(u2.raw_fragment, u.raw_fragment))


def h_recompose(ctx, n, skeleton=None):
    """for URLs made by the auto-encoding constructor the raw accessors re-compose to str(url)"""
    import urlkit
    s = urlkit.text(ctx, skeleton)
    P = ctx.P
    r = call(P.URL, s)
    ctx.observe("URL", r[:1] if r[0] == "ok" else r[:2])
    if r[0] != "ok":
        return
    u = r[1]
    parts = call(lambda: (u.scheme, u.raw_user, u.raw_password, u.host_subcomponent, u.explicit_port, u.raw_path, u.raw_query_string, u.raw_fragment,
                          u.raw_authority, u.is_default_port()))
    st = call(str, u)
    if parts[0] != "ok" or st[0] != "ok":
        return
    scheme, user, pw, hostsub, port, path, query, frag, auth, isdef = parts[1]
    ctx.observe("parts", parts[1])
    if not auth:
        return          # the skeletons of this family all have an authority
    a = ""
    if user is not None or pw is not None:
        a = (user or "") + (":" + pw if pw is not None else "") + "@"
    a = a + (hostsub or "")
    if port is not None and not isdef:
        a = a + ":" + str(port)
    p = u._path
    if not p and (query or frag):
        p = "/"
    exp = (scheme + ":" if scheme else "") + "//" + a + p + ("?" + query if query else "") + ("#" + frag if frag else "")
    ctx.check("raw-accessors-recompose-to-str", sym_eq(st[1], exp))


SKELETONS_NETLOC = [
    ["u", None, "p", None, "h", None, "8", None],
    [None, "@", None, ":", None],
    ["[", None, ":", None, "]", None, None],
    ["a:b@c@", None, None, ":", None],
    [None, None, "@[::1]:", None],
]
SKELETONS_URL = [
    ["h", None, "tp", None, "//a", None, "b"],
    [None, "//", None, "@", None, ":", None],
    ["x:", None, "/", None, "?", None, "#", None],
    [" ", None, "\t", None, ":/", None],
    ["//[", None, None, "]", None],
]


def families(tier):
    q = tier == "quick"
    fams = []
    nmax = 4 if q else 6
    for n in range(0, nmax + 1):
        fams.append(Family("split_url/free/n=%d" % n, h_split, dict(n=n)))
    for n in range(0, (4 if q else 6) + 1):
        fams.append(Family("split_netloc/free/n=%d" % n, h_netloc, dict(n=n)))
    for n in range(0, (3 if q else 5) + 1):
        fams.append(Family("URL-encoded/free/n=%d" % n, h_encoded, dict(n=n)))
    for i, sk in enumerate([["http://u", ("in", ":@a"), "@h:", ("in", "0189"), "/p?q#f"], ["x://", ("in", "u:@"), ("in", "p:@"), "h:", ("in", "018"), ("in", "0/?")],
                            ["https://[::1]:44", ("in", "03"), "/", None], ["http://h", ("in", "/?#"), None]]):
        fams.append(Family("recompose/skeleton-%d" % i, h_recompose, dict(n=0, skeleton=sk)))
    for i, sk in enumerate(SKELETONS_NETLOC):
        fams.append(Family("split_netloc/skeleton-%d" % i, h_netloc, dict(n=0, skeleton=sk)))
    for i, sk in enumerate(SKELETONS_URL):
        fams.append(Family("split_url/skeleton-%d" % i, h_split, dict(n=0, skeleton=sk)))
        fams.append(Family("URL-encoded/skeleton-%d" % i, h_encoded, dict(n=0, skeleton=sk)))
    return fams
