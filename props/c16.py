"""C16 -- hosts are stored in one canonical form and hostile hosts are rejected (ASCII / IP part)."""
from common import Family, call, outcome, all_of, any_of, sym_eq
import oracles as O
import urlkit as U

PROPERTY = "C16"
LEVEL = "model_checking"
BUDGET = {"quick": 240, "thorough": 2400}
BOUNDS = {"quick": "ASCII host text of <= 3 free characters after a letter (every ASCII character in host position) through _encode_host, "
                   "URL(), build(host=) and with_host(); 14 IPv4/IPv6 spellings (concrete) with symbolic zone id (<= 2 characters), port and "
                   "userinfo around them, through constructor, build, with_host and every authority modifier",
          "thorough": "ASCII host text of <= 4 free characters; zone ids of <= 3 characters"}
ASSUMPTIONS = ["NOT DECIDED (stated in MANIFEST level_note): IDNA 2008/2003 encoding of non-ASCII labels and the NFKC delimiter screen over all of "
               "Unicode - table look-ups in idna / unicodedata (C code); non-ASCII host text is cut and counted",
               "IP literals are concrete skeleton parts (ipaddress is not executed on symbolic text): symbolic host text that ends in a digit or "
               "contains ':' is cut and counted",
               "reg-name grammar: unreserved / sub-delims / pct-encoded with two hex digits (RFC 3986 3.2.2), applied to the lower-cased text"]
MANIFEST_ENTRY = {
    "text": "Bounded model checking of the ASCII / IP-literal part of host handling: the solver chooses host characters, zone ids, ports and "
            "userinfo; z3 decides that the encoded host is lower-case and idempotent, that build()/with_host() reject exactly the characters "
            "outside the reg-name grammar, and that IP literals are compressed, keep their zone verbatim and are bracketed in str(), "
            "host_subcomponent and host_port_subcomponent on every re-assembly route. PARTIAL: the IDNA and NFKC clauses are not applicable to "
            "this technique (DESIGN.md section 5).",
    "note": "Bounds in evidence.coverage.bounds. Partial claim: IDNA encoding of non-ASCII labels and the NFKC screen are outside (exercised only with "
            "concrete hosts in concordance). Trusted: sx engine + regex model (concordance-validated per path), z3.",
    "technique": "symbolic execution of the instrumented yarl source with z3 (QF_BV); reg-name grammar and IP re-assembly as postconditions",
}
REG = O.UNRESERVED + O.SUB_DELIMS        # reg-name literals (plus pct-encoded)


def regname_ok(h):
    """h (already lower-cased) matches *( unreserved / sub-delims / pct-encoded ) -- one term"""
    conds = []
    n = len(h)
    for i in range(n):
        c = h[i]
        esc = all_of([h[i + 1] in O.HEXDIG, h[i + 2] in O.HEXDIG]) if i + 2 < n else False
        conds.append(any_of([c in REG.lower() + REG, all_of([c == "%", esc])]))
    return all_of(conds)


def is_lower_ascii(h):
    return all_of([all_of([c < "\x80", any_of([c < "A", c > "Z"])]) for c in h]) if len(h) else True


def h_regname(ctx, n, route):
    P = ctx.P
    t = ctx.str("t", n, lo=0, hi=127)
    host = "g" + t
    ctx.assume(all_of([host[-1] not in "0123456789", ":" not in host]), "not IP-like (IP literals are concrete families)")
    if route == "encode":
        r = call(P.url._encode_host, host, True)
        r0 = call(P.url._encode_host, host, False)
        ctx.observe("encode", (outcome(r), outcome(r0)))
        ctx.check("non-validating-route-never-refuses-ascii", r0[0] == "ok", r0[1])
        ctx.check("lower-case", is_lower_ascii(r0[1]))
        again = call(P.url._encode_host, r0[1], False)
        ctx.check("idempotent", again[0] == "ok" and sym_eq(again[1], r0[1]))
        ctx.check("is-lowercased-input", sym_eq(r0[1], host.lower()))
        enc = r
    elif route == "build":
        enc = call(lambda: P.URL.build(scheme="http", host=host))
        ctx.observe("build", outcome(enc))
    else:
        enc = call(P.URL("http://x/").with_host, host)
        ctx.observe("with_host", outcome(enc))
    ok = regname_ok(host.lower())
    if enc[0] != "ok":
        ctx.check("only-ValueError", enc[1] == "ValueError", enc[1])
        ctx.check("valid-reg-name-must-be-accepted", ok == False)  # noqa: E712
        return
    ctx.check("invalid-reg-name-must-be-rejected", ok)
    if route != "encode":
        u = enc[1]
        ctx.check("raw_host-lower-case", sym_eq(u.raw_host, host.lower()))
        ctx.check("str", sym_eq(str(u), "http://" + host.lower() + ("/" if route != "build" else "")))
        u2 = call(P.URL, str(u))
        ctx.check("reparse-same-host", u2[0] == "ok" and sym_eq(u2[1].raw_host, u.raw_host))


def h_ctor_host(ctx, n):
    """URL('http://' + host): no validation, but lower-case / idempotent / re-parse stable for reg-name text"""
    P = ctx.P
    t = ctx.str("t", n, lo=0, hi=127)
    host = "g" + t
    ctx.assume(all_of([host[-1] not in "0123456789"] + [c not in ":/?#@[]\t\r\n" for c in t]), "hole is host text, not IP-like")
    r = call(P.URL, "http://" + host + "/")
    ctx.observe("URL", outcome(r))
    ctx.check("no-exception", r[0] == "ok", r[1])
    u = r[1]
    ctx.check("raw_host-lower-case", sym_eq(u.raw_host, host.lower()))
    ctx.check("host_subcomponent", sym_eq(u.host_subcomponent, host.lower()))


IPS = [("127.0.0.1", "127.0.0.1", 4), ("1.2.3.4", "1.2.3.4", 4), ("::1", "::1", 6), ("::", "::", 6), ("1::", "1::", 6),
       ("2001:DB8::FF00:42:8329", "2001:db8::ff00:42:8329", 6), ("0:0:0:0:0:0:0:1", "::1", 6), ("2001:0db8:0000:0000:0000:ff00:0042:8329", "2001:db8::ff00:42:8329", 6),
       ("::ffff:1.2.3.4", "::ffff:102:304", 6), ("FE80::1", "fe80::1", 6), ("1:2:3:4:5:6:7:8", "1:2:3:4:5:6:7:8", 6), ("::0001", "::1", 6),
       ("255.255.255.255", "255.255.255.255", 4), ("0.0.0.0", "0.0.0.0", 4)]


def h_ip(ctx, spelled, compressed, version, zone_n, route):
    P = ctx.P
    zone = ctx.str("z", zone_n, lo=33, hi=126) if zone_n else None
    if zone is not None:
        ctx.assume(all_of([c not in "/?#@[]:%" for c in zone] + [zone[-1] != "."]), "zone id is host text without a trailing dot "
                   "(host_port_subcomponent documents that trailing dots are stripped)")
    raw_in = spelled + ("%" + zone if zone is not None else "")
    exp_raw = compressed + ("%" + zone if zone is not None else "")
    br_in = "[" + raw_in + "]" if version == 6 else raw_in
    exp_sub = "[" + exp_raw + "]" if version == 6 else exp_raw
    port = ctx.int("port", 0, 65535)
    if route == "ctor":
        user = ctx.str("u", 1, lo=33, hi=126)
        ctx.assume(all_of([c not in "/?#@[]:%" for c in user]), "user is userinfo text")
        r = call(P.URL, "x://" + user + "@" + br_in + ":" + str(port) + "/p")
    elif route == "build":
        r = call(lambda: P.URL.build(scheme="x", host=raw_in, port=port, path="/p"))
    else:
        r = call(lambda: P.URL("x://u@old:1/p").with_host(raw_in).with_port(port))
    ctx.observe(route, outcome(r))
    ctx.check("ip-literal-accepted", r[0] == "ok", r[1])
    u = r[1]
    ctx.observe("str", str(u))
    ctx.check("raw_host-compressed-zone-verbatim", sym_eq(u.raw_host, exp_raw))
    ctx.check("host_subcomponent-bracketed", sym_eq(u.host_subcomponent, exp_sub))
    ctx.check("host_port_subcomponent-bracketed", sym_eq(u.host_port_subcomponent, exp_sub + ":" + str(port)))
    ctx.check("explicit_port", sym_eq(u.explicit_port, port))
    s = str(u)
    ctx.check("str-bracketed", (exp_sub + ":") in s if version == 6 else True)
    # every re-assembly route keeps the brackets and the port
    for nm, f in (("with_user", lambda: u.with_user("w")), ("with_password", lambda: u.with_password("pw")), ("with_user(None)", lambda: u.with_user(None)),
                  ("with_scheme", lambda: u.with_scheme("http")), ("with_path", lambda: u.with_path("/q")), ("origin", lambda: u.origin()),
                  ("with_port-same", lambda: u.with_port(port)), ("reparse", lambda: P.URL(str(u)))):
        v = call(f)
        ctx.check("route-ok:" + nm, v[0] == "ok", v[1])
        ctx.check("route-keeps-host:" + nm, all_of([sym_eq(v[1].raw_host, exp_raw), sym_eq(v[1].host_subcomponent, exp_sub),
                                                    sym_eq(v[1].explicit_port, port)]))
    again = call(P.url._encode_host, u.raw_host, False)
    ctx.check("encode-idempotent", again[0] == "ok" and sym_eq(again[1], exp_sub))


def h_ip_default_port(ctx, spelled, compressed):
    """IPv6 literal with the scheme's default port written explicitly: brackets survive the port elision"""
    P = ctx.P
    user = ctx.str("u", 1, lo=33, hi=126, alphabet="abcXYZ019-._~!$&'()*+,;=")
    for sc, port in (("http", 80), ("https", 443), ("ws", 80), ("ftp", 21)):
        for ui in ("", user + "@"):
            r = call(P.URL, sc + "://" + ui + "[" + spelled + "]:" + str(port) + "/p")
            ctx.check("accepted", r[0] == "ok", r[1])
            u = r[1]
            ctx.check("str-bracketed-without-default-port", sym_eq(str(u), sc + "://" + ui + "[" + compressed + "]/p"))
            ctx.check("host_port_subcomponent", sym_eq(u.host_port_subcomponent, "[" + compressed + "]"))
            back = call(P.URL, str(u))
            ctx.check("reparses-to-same-host", back[0] == "ok" and sym_eq(back[1].raw_host, compressed))
    ctx.observe("done", True)


def h_idna_fallback_case(ctx):
    """hosts that idna (2008) refuses and the IDNA 2003 codec accepts, next to upper-case ASCII labels: the encoded host is lower-case ASCII
    on every route and encoding is idempotent (concrete texts: IDNA of symbolic hosts is a counted exclusion)"""
    P = ctx.P
    for h in ("EXAMPLE.\u2603.com", "www.\u2603.COM", "B\u00dcCHER.\u2603.De", "\u2603.Example"):
        for route, mk in (("ctor", lambda: P.URL("http://" + h + "/")), ("build", lambda: P.URL.build(scheme="http", host=h)),
                          ("with_host", lambda: P.URL("http://x/").with_host(h))):
            r = call(mk)
            if r[0] != "ok":
                ctx.check("refusal-is-ValueError", r[1] == "ValueError", (h, route, r[1]))
                continue
            raw = r[1].raw_host
            ctx.check("raw_host-lower-case-ascii", raw.isascii() and raw == raw.lower(), (h, route, raw))
            again = call(lambda: P.URL(str(r[1])).raw_host)
            ctx.check("encoding-idempotent", again[0] == "ok" and again[1] == raw, (h, route, raw, again[1]))
    ctx.observe("done", True)


def h_nfkc_concrete(ctx):
    """NOT part of the solver claim: concrete enumeration of every code point whose NFKC form contains a URL delimiter
    (computed from the interpreter's unicodedata) in host and userinfo position - each must be rejected"""
    import unicodedata
    P = ctx.P
    bad = [chr(c) for c in range(0x80, 0x110000) if not (0xD800 <= c <= 0xDFFF) and any(d in unicodedata.normalize("NFKC", chr(c)) for d in "/?#@:")]
    ctx.check("the-table-is-not-empty", len(bad) > 10, len(bad))
    for ch in bad:
        for text in ("http://a" + ch + "b/p", "http://u" + ch + "@h/", "//h" + ch):
            r = call(P.URL, text)
            ctx.check("nfkc-delimiter-rejected", r[0] == "exc" and r[1] == "ValueError", (hex(ord(ch)), text, r[:2]))
    ok = [chr(c) for c in (0xE9, 0x3B1, 0x4E2D, 0x1F600, 0xFF21, 0x2122, 0xB2)]
    for ch in ok:
        r = call(P.URL, "http://u" + ch + ":p@h/")
        ctx.check("harmless-non-ascii-userinfo-accepted", r[0] == "ok", (hex(ord(ch)), r[:2]))
    ctx.observe("done", len(bad))


def families(tier):
    q = tier == "quick"
    fams = []
    for n in range(0, (3 if q else 4) + 1):
        for route in ("encode", "build", "with_host"):
            fams.append(Family("regname/%s/n=%d" % (route, n), h_regname, dict(n=n, route=route)))
        fams.append(Family("ctor-host/n=%d" % n, h_ctor_host, dict(n=n)))
    for sp, comp, ver in IPS:
        if ver == 6 and (sp in ("::1", "2001:DB8::FF00:42:8329", "::ffff:1.2.3.4") or not q):
            fams.append(Family("ip-default-port/%s" % sp, h_ip_default_port, dict(spelled=sp, compressed=comp)))
    fams.append(Family("nfkc-screen-concrete", h_nfkc_concrete, {}))
    fams.append(Family("idna-fallback-case-concrete", h_idna_fallback_case, {}))
    for sp, comp, ver in IPS:
        for zn in ((0, 1, 2) if q else (0, 1, 2, 3)):
            if zn and ver != 6:
                continue        # zone ids exist for IPv6 literals only
            for route in ("ctor", "build", "with_host"):
                if q and zn == 2 and route != "ctor":
                    continue
                fams.append(Family("ip/%s/zone=%d/%s" % (sp, zn, route), h_ip, dict(spelled=sp, compressed=comp, version=ver, zone_n=zn, route=route)))
    return fams
