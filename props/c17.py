"""C17 -- port semantics: explicit vs default, zero vs absent."""
from common import Family, call, outcome, all_of, any_of, sym_eq
import urlkit as U

PROPERTY = "C17"
LEVEL = "model_checking"
BUDGET = {"quick": 240, "thorough": 2400}
BOUNDS = {"quick": "constructor: port text of <= 6 free code points x schemes {http, https, ws, wss, ftp, x, ''} x hosts {reg-name, IPv6, IPv4}; "
                   "build(port=) and with_port() with a symbolic integer in [-70000, 70000]; two-step histories build(port=p in [0, 999]).with_scheme(s2) and "
                   "URL(s1://h:<= 3 free digits>/).with_scheme(s2) over 6 x 6 scheme pairs, with origin() and with_port(None) on the result",
          "thorough": "port text of <= 7 free code points; symbolic integers in [-10^7, 10^7]; re-scheme histories with p in [0, 9999] and <= 5 free digits (value <= 65535)"}
ASSUMPTIONS = ["port text reaching int() without being ASCII digits is reported (int()'s own leniency - sign, underscore, whitespace - is not modelled further)",
               "holes of the port text are not URL structure characters (/ ? # @ [ ] : TAB CR LF); those shapes belong to C07",
               "for the build() route explicit_port is not asserted when the port equals the scheme default (build drops it; the property defines "
               "explicit_port for a port written in a URL)",
               "bool / non-int arguments are a finite type dispatch executed concretely"]
MANIFEST_ENTRY = {
    "text": "Bounded model checking: the solver owns the port digits (constructor) and the port integer (build, with_port); on every feasible path z3 "
            "decides that explicit_port is the written value, that out-of-range / non-numeric ports raise ValueError, that port falls back to the "
            "scheme default only when absent, 0 differs from absent, and that str(), host_port_subcomponent and is_default_port() drop/report the "
            "default exactly when required.",
    "note": "Bounds in evidence.coverage.bounds. Trusted: sx engine + int()/str(int) models (concordance-validated per path), z3.",
    "technique": "symbolic execution of the instrumented yarl source with z3 (QF_BV); port digits and port integers are solver variables",
}
DEFAULTS = {"http": 80, "https": 443, "ws": 80, "wss": 443, "ftp": 21}
STRUCT = "/?#@[]:\t\r\n"


def expected_views(ctx, u, scheme, hostsub, value, tail="/", port_text=None, ui=""):
    """checks on a URL whose explicit port is the (symbolic or concrete) integer `value` (None = absent)"""
    dflt = DEFAULTS.get(scheme)
    ctx.check("explicit_port", sym_eq(u.explicit_port, value))
    if value is None:
        ctx.check("port-falls-back-to-default", sym_eq(u.port, dflt))
        ctx.check("is_default_port-when-absent", u.is_default_port() is True)
        # encoded=True keeps the authority text verbatim, including an empty port's ':'
        sep = ":" if port_text is not None else ""
        ctx.check("str-without-port", sym_eq(str(u), (scheme + "://" if scheme else "//") + ui + hostsub + sep + tail))
        ctx.check("host_port_subcomponent-without-port", sym_eq(u.host_port_subcomponent, hostsub))
        return
    ctx.check("port-is-explicit", sym_eq(u.port, value))
    isd = (value == dflt) if dflt is not None else False
    ctx.check("is_default_port", sym_eq(u.is_default_port(), isd))
    pre = scheme + "://" if scheme else "//"
    if isd:
        ctx.check("str-drops-default-port", sym_eq(str(u), pre + ui + hostsub + tail))
        ctx.check("host_port_subcomponent-drops-default-port", sym_eq(u.host_port_subcomponent, hostsub))
    else:
        ctx.check("str-keeps-port", sym_eq(str(u), pre + ui + hostsub + ":" + (str(value) if port_text is None else port_text) + tail))
        ctx.check("host_port_subcomponent-keeps-port", sym_eq(u.host_port_subcomponent, hostsub + ":" + str(value)))


def h_ctor_padded(ctx, scheme, host, k):
    """long zero-padded port texts: only the value decides (holes over {0, 8, 9})"""
    P = ctx.P
    d = ctx.str("d", k, lo=48, hi=57, alphabet="089")
    r = call(P.URL, scheme + "://" + host + ":" + d + "/")
    ctx.observe("URL", outcome(r))
    v = int(d)
    if r[0] != "ok":
        ctx.check("only-ValueError", r[0] == "excluded" or r[1] == "ValueError", r[1])
        ctx.check("numeric-port-refused-only-if-out-of-range", v > 65535)
        return
    ctx.check("out-of-range-port-must-be-refused", v <= 65535)
    ctx.check("explicit_port", sym_eq(r[1].explicit_port, v))


def h_ctor(ctx, scheme, host, k, encoded=False, hostsub=None):
    P = ctx.P
    d = ctx.str("d", k) if k else ""
    if k:
        ctx.assume(all_of([c not in STRUCT for c in d]), "port text hole is not a URL structure character")
        ctx.assume(d[0] not in " " if not scheme and False else True)
    text = (scheme + "://" if scheme else "//") + host + ":" + d + "/"
    r = call(P.URL, text, encoded=encoded)
    ctx.observe("URL", outcome(r))
    digits = all_of([c in "0123456789" for c in d]) if k else True
    if encoded and r[0] == "ok":
        # encoded=True stores the text verbatim; the port is validated when it is first derived
        pr = call(lambda: r[1].explicit_port)
        if pr[0] != "ok":
            r = pr
    if r[0] == "excluded":
        if r[1].startswith("int(text)"):
            # the port text reached int() although it is not made of ASCII digits (that is where the model stops)
            ctx.check("non-numeric-port-must-be-refused", digits)
        return
    if r[0] == "exc":
        ctx.check("only-ValueError", r[1] == "ValueError", r[1])
        # a refusal is justified only by a non-numeric or out-of-range port text
        if k == 0:
            ctx.fail("empty-port-must-be-accepted", r[1])
        elif digits:
            v = int(d)
            ctx.check("numeric-port-refused-only-if-out-of-range", v > 65535)
        return
    u = r[1]
    ui = host[:host.index("@") + 1] if "@" in host else ""
    hostsub = hostsub if hostsub is not None else host
    if k == 0:
        expected_views(ctx, u, scheme, hostsub, None, port_text="" if encoded else None, ui=ui)
        return
    ctx.check("non-numeric-port-must-be-refused", digits)
    v = int(d)
    ctx.check("out-of-range-port-must-be-refused", v <= 65535)
    ctx.observe("explicit_port", u.explicit_port)
    expected_views(ctx, u, scheme, hostsub, v, port_text=d if encoded else None, ui=ui)


def h_build(ctx, scheme, host, hostsub, lim=70000):
    P = ctx.P
    p = ctx.int("port", -lim, lim)
    r = call(lambda: P.URL.build(scheme=scheme, host=host, port=p, path="/"))
    ctx.observe("build", outcome(r))
    inrange = all_of([p >= 0, p <= 65535])
    if r[0] == "exc":
        ctx.check("only-ValueError", r[1] == "ValueError", r[1])
        ctx.check("in-range-port-must-be-accepted", inrange == False)  # noqa: E712
        return
    ctx.check("out-of-range-port-must-be-refused", inrange)
    u = r[1]
    dflt = DEFAULTS.get(scheme)
    ctx.observe("port", u.port)
    ctx.check("port", sym_eq(u.port, p))
    isd = (p == dflt) if dflt is not None else False
    ctx.check("is_default_port", sym_eq(u.is_default_port(), isd))
    pre = scheme + "://" if scheme else "//"
    if isd:
        ctx.check("str-drops-default-port", sym_eq(str(u), pre + hostsub + "/"))
    else:
        ctx.check("str-keeps-port", sym_eq(str(u), pre + hostsub + ":" + str(p) + "/"))
        ctx.check("explicit_port", sym_eq(u.explicit_port, p))


def h_with_port(ctx, base, scheme, hostsub, userinfo, lim=70000):
    P = ctx.P
    p = ctx.int("port", -lim, lim)
    b = P.URL(base)
    r = call(b.with_port, p)
    ctx.observe("with_port", outcome(r))
    inrange = all_of([p >= 0, p <= 65535])
    if r[0] == "exc":
        ctx.check("only-ValueError", r[1] == "ValueError", r[1])
        ctx.check("in-range-port-must-be-accepted", inrange == False)  # noqa: E712
        return
    ctx.check("out-of-range-port-must-be-refused", inrange)
    expected_views(ctx, r[1], scheme, userinfo + hostsub if False else hostsub, p, tail="/") if not userinfo else None
    u = r[1]
    ctx.check("explicit_port", sym_eq(u.explicit_port, p))
    ctx.check("port-is-explicit", sym_eq(u.port, p))
    ctx.check("zero-is-not-absent", u.explicit_port is not None)
    c = call(u.with_port, None)
    ctx.check("with_port(None)-clears", c[0] == "ok" and c[1].explicit_port is None and sym_eq(c[1].port, DEFAULTS.get(scheme)))


def h_rescheme(ctx, s1, s2, k=None, hi=65535):
    """two-step history: a port written under scheme s1, then with_scheme(s2): the written value is kept and its default-ness follows s2
    (k None: build(port=p) with a symbolic integer - build() drops p when it is s1's default; k: URL text with k free digits)"""
    P = ctx.P
    if k is None:
        p = ctx.int("port", 0, hi)
        r = call(lambda: P.URL.build(scheme=s1, host="h", port=p, path="/"))
        written = None if (DEFAULTS.get(s1) is not None and p == DEFAULTS[s1]) else p
    else:
        d = ctx.str("d", k, lo=48, hi=57)
        p = int(d)
        ctx.assume(p <= 65535, "re-scheme histories start from an in-range port")
        r = call(P.URL, s1 + "://h:" + d + "/")
        written = p
    ctx.check("in-range-port-accepted", r[0] == "ok", r[1])
    if r[0] != "ok":
        return
    m = call(r[1].with_scheme, s2)
    ctx.observe("with_scheme", outcome(m))
    ctx.check("with_scheme-accepts", m[0] == "ok", m[1])
    if m[0] != "ok":
        return
    u = m[1]
    expected_views(ctx, u, s2, "h", written)
    o = call(u.origin)
    ctx.check("origin-keeps-written-port", o[0] == "ok" and sym_eq(o[1].explicit_port, written))
    if o[0] == "ok":
        expected_views(ctx, o[1], s2, "h", written, tail="")
    c = call(u.with_port, None)
    ctx.check("with_port(None)-clears", c[0] == "ok" and c[1].explicit_port is None and sym_eq(c[1].port, DEFAULTS.get(s2)))
    if written is not None:
        b = call(u.with_scheme, s1)
        ctx.check("back-to-first-scheme-keeps-port", b[0] == "ok" and sym_eq(b[1].explicit_port, written))
        if b[0] == "ok":
            expected_views(ctx, b[1], s1, "h", written)


def h_types(ctx):
    """finite type dispatch (concrete)"""
    P = ctx.P
    u = P.URL("http://h/")
    for bad in (True, False, "80", 1.5, b"80", [80]):
        r = call(u.with_port, bad)
        ctx.check("with_port-rejects-non-int-with-TypeError", r[0] == "exc" and r[1] == "TypeError", (bad, r[1]))
        r = call(lambda: P.URL.build(scheme="http", host="h", port=bad))
        ctx.check("build-rejects-non-int-with-TypeError", r[0] == "exc" and r[1] == "TypeError", (bad, r[1]))
    for v in (0, 1, 21, 80, 443, 65535):
        ctx.check("with_port-accepts", call(u.with_port, v)[0] == "ok", v)
    ctx.observe("done", True)


def families(tier):
    q = tier == "quick"
    fams = []
    kmax = 6 if q else 7
    lim = 70000 if q else 10 ** 7
    for scheme in ("http", "https", "ws", "wss", "ftp", "x", ""):
        for host in (("h", "[::1]", "1.2.3.4") if scheme in ("http", "x") else ("h",)):
            for k in range(0, kmax + 1):
                if k == kmax and not (scheme == "http" and host == "h"):
                    continue
                fams.append(Family("ctor/%s/%s/k=%d" % (scheme or "none", host, k), h_ctor, dict(scheme=scheme, host=host, k=k)))
                if scheme in ("http", "wss", "x") and host == "h" and k <= 4:
                    fams.append(Family("ctor-encoded/%s/%s/k=%d" % (scheme or "none", host, k), h_ctor, dict(scheme=scheme, host=host, k=k, encoded=True)))
    fams.append(Family("ctor/http/h/zero-padded-k=7", h_ctor_padded, dict(scheme="http", host="h", k=7)))
    fams.append(Family("ctor/x/h/zero-padded-k=6", h_ctor_padded, dict(scheme="x", host="h", k=6)))
    for k in (1, 2, 3):
        fams.append(Family("ctor-userinfo/http/k=%d" % k, h_ctor, dict(scheme="http", host="u:p@h", k=k, hostsub="h")))
        fams.append(Family("ctor-userinfo/x/k=%d" % k, h_ctor, dict(scheme="x", host="u@[::1]", k=k, hostsub="[::1]")))
    for scheme in ("http", "https", "ws", "wss", "ftp", "x", ""):
        for host, hostsub in (("h", "h"), ("::1", "[::1]"), ("1.2.3.4", "1.2.3.4")):
            fams.append(Family("build/%s/%s" % (scheme or "none", host), h_build, dict(scheme=scheme, host=host, hostsub=hostsub, lim=lim)))
    bases = [("http://h/", "http", "h", ""), ("https://h:8443/", "https", "h", ""), ("x://[::1]:5/", "x", "[::1]", ""),
             ("ftp://1.2.3.4/", "ftp", "1.2.3.4", ""), ("//h/", "", "h", ""), ("http://u:p@h:80/", "http", "h", "u:p@")]
    for i, (b, sc, hs, ui) in enumerate(bases):
        fams.append(Family("with_port/base-%d" % i, h_with_port, dict(base=b, scheme=sc, hostsub=hs, userinfo=ui, lim=lim)))
    rs = ("http", "https", "ws", "wss", "ftp", "x")
    for s1 in rs:
        for s2 in rs:
            if s1 != s2:
                fams.append(Family("rescheme/build/%s-%s" % (s1, s2), h_rescheme, dict(s1=s1, s2=s2, hi=999 if q else 9999)))
    for s1, s2 in (("http", "https"), ("https", "http"), ("x", "ftp"), ("ws", "x"), ("ftp", "wss")):
        for k in ((1, 2, 3) if q else (1, 2, 3, 4, 5)):
            fams.append(Family("rescheme/ctor/%s-%s/k=%d" % (s1, s2, k), h_rescheme, dict(s1=s1, s2=s2, k=k)))
    fams.append(Family("types", h_types, {}))
    return fams
