"""C04 -- already-canonical URLs are left untouched."""
from common import Family
import kernel as K
from common import call, outcome, all_of, any_of, sym_eq

PROPERTY = "C04"
LEVEL = "model_checking"
BUDGET = {"quick": 240, "thorough": 2400}
BOUNDS = {"quick": "kernel: canonical texts of <= 3 units (literal or escape) x 4 requoters x 2 backends; URL level: 8 component shapes (<= 2 units "
                   "per component) x hosts {reg-name, IPv6, IPv4} x port of 0-2 symbolic digits (non-default, no leading zero)",
          "thorough": "kernel: canonical texts of <= 4 units x 4 requoters x 2 backends"}
ASSUMPTIONS = ["':' inside user/password is not part of the canonical literal set (RFC allows it, yarl escapes it; the property does not settle which)",
               "texts longer than the bound are outside the claim"]
MANIFEST_ENTRY = {
    "text": "Bounded model checking: every text of the canonical language of a component (literals from the RFC set; upper-case escapes of must-escape "
            "bytes or of the component's either-way delimiters; membership decided by the solver) is returned unchanged by the real requoter.",
    "note": "Bounds in evidence.coverage.bounds. Trusted: sx engine + models (concordance-validated per path), z3, the pyx lowering, the RFC tables in props/kernel.py.",
    "technique": "symbolic execution of the instrumented sources with z3 (QF_BV) over the canonical grammar of each component",
}


def h_canonical_url(ctx, host, shapes_, port_digits, scheme="http"):
    """str(URL(s)) == s for s assembled from canonical component texts"""
    P = ctx.P
    user = K.canonical_text(ctx, "userinfo", shapes_.get("user", ""), False, "u")
    pw = K.canonical_text(ctx, "userinfo", shapes_.get("password", ""), False, "w")
    path = K.canonical_text(ctx, "path", shapes_.get("path", ""), False, "p")
    query = K.canonical_text(ctx, "query", shapes_.get("query", ""), True, "q")
    frag = K.canonical_text(ctx, "fragment", shapes_.get("fragment", ""), False, "f")
    ctx.assume(all_of(["." not in path, "/" not in path[:1] if False else True]), "no dot segments under an authority")
    port = ""
    if port_digits:
        port = ctx.str("d", port_digits, lo=48, hi=57)
        if port_digits > 1:
            ctx.assume(port[0] != "0", "no leading zero")
        ctx.assume(all_of([port != "80", port != "443"]) if scheme in ("http", "https") else True, "not the default port")
    s = scheme + "://"
    if "user" in shapes_ or "password" in shapes_:
        s = s + user + (":" + pw if "password" in shapes_ else "") + "@"
        ctx.assume(len(user) > 0 or "password" in shapes_, "userinfo present")
    s = s + host + (":" + port if port_digits else "") + "/" + path
    if "query" in shapes_:
        ctx.assume(len(query) > 0, "non-empty query")
        s = s + "?" + query
    if "fragment" in shapes_:
        ctx.assume(len(frag) > 0, "non-empty fragment")
        s = s + "#" + frag
    r = call(P.URL, s)
    ctx.observe("URL", outcome(r))
    ctx.check("canonical-url-accepted", r[0] == "ok", r[1])
    ctx.observe("str", str(r[1]))
    ctx.check("unchanged", sym_eq(str(r[1]), s))


def shapes(n):
    out = [""]
    for _ in range(n):
        out = [s + c for s in out for c in "LE"]
    return out


def families(tier):
    n = 3 if tier == "quick" else 4
    fams = []
    for name in K.REQUOTERS:
        for k in range(1, n + 1):
            for sh in shapes(k):
                fams.append(Family("kernel/%s/%s" % (name, sh), K.h_canonical_fixed, dict(name=name, shape=sh), backends=("py", "c")))
    url_shapes = [dict(path="LE"), dict(path="EL", query="LE"), dict(user="L", password="E", path="L"), dict(user="E", path=""),
                  dict(password="L", path=""), dict(query="EL", fragment="LE"), dict(path="L", fragment="E"), dict(user="L", path="", query="L")]
    for i, sh in enumerate(url_shapes):
        for host in (("h", "[::1]", "1.2.3.4") if (i < 3 or tier != "quick") else ("h",)):
            for pd in (0, 1, 2):
                if tier == "quick" and pd == 2 and host != "h":
                    continue
                fams.append(Family("url/shape-%d/%s/port-digits=%d" % (i, host, pd), h_canonical_url, dict(host=host, shapes_=sh, port_digits=pd),
                                   backends=("py", "c") if (i < 2 and pd == 0) else ("py",)))
    return fams
