"""C04 -- already-canonical URLs are left untouched."""
from common import Family
import kernel as K

PROPERTY = "C04"
LEVEL = "model_checking"
BUDGET = {"quick": 240, "thorough": 2400}
BOUNDS = {"quick": "kernel: canonical texts of <= 3 units (literal or escape) x 4 requoters x 2 backends",
          "thorough": "kernel: canonical texts of <= 4 units x 4 requoters x 2 backends"}
ASSUMPTIONS = ["':' inside user/password is not part of the canonical literal set (RFC allows it, yarl escapes it; the property does not settle which)",
               "texts longer than the bound are outside the claim"]
MANIFEST_ENTRY = {
    "text": "Bounded model checking: every text of the canonical language of a component (literals from the RFC set; upper-case escapes of must-escape "
            "bytes or of the component's either-way delimiters; membership decided by the solver) is returned unchanged by the real requoter.",
    "note": "Bounds in evidence.coverage.bounds. Trusted: sx engine + models (concordance-validated per path), z3, the pyx lowering, the RFC tables in props/kernel.py.",
    "technique": "symbolic execution of the instrumented sources with z3 (QF_BV) over the canonical grammar of each component",
}


def shapes(n):
    out = [""]
    for _ in range(n):
        out = [s + c for s in out for c in "LE"]
    return out


def families(tier):
    n = 3 if tier == "quick" else 4
    fams = []
    for name in K.REQUOTERS:
        for k in range(1, n + 1):
            for sh in shapes(k):
                fams.append(Family("kernel/%s/%s" % (name, sh), K.h_canonical_fixed, dict(name=name, shape=sh), backends=("py", "c")))
    return fams
