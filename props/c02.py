"""C02 -- canonicalisation never changes what a URL means."""
from common import Family
import kernel as K
import urlfam as UF

PROPERTY = "C02"
LEVEL = "model_checking"
BUDGET = {"quick": 300, "thorough": 2400}
BOUNDS = {"quick": "kernel: all texts of <= 3 code points (no lone surrogates) x 9 quoters x 2 backends",
          "thorough": "kernel: all texts of <= 3 code points x 9 quoters x 2 backends, 4 code points for the 4 requoters; URL level: <= 3 free code points"}
ASSUMPTIONS = ["lone surrogates are excluded (the property excepts them)",
               "in queries a literal '+' and a literal space both denote a space byte",
               "texts longer than the bound are outside the claim",
               "functools.lru_cache is bypassed (treated as a transparent memo)"]
MANIFEST_ENTRY = {
    "text": "Bounded model checking: on every feasible path of the real quoters (both backends) z3 decides that the reference percent-decoding of the "
            "output (bytes plus literal-delimiter tokens) equals that of the supplied text.",
    "note": "Bounds in evidence.coverage.bounds. Trusted: sx engine + models (concordance-validated per path), z3, the pyx lowering, the reference decoder in props/oracles.py.",
    "technique": "symbolic execution of the instrumented quoter sources with z3 (QF_BV); token-level reference decoder as oracle",
}


def families(tier):
    n = 3 if tier == "quick" else 4
    fams = []
    for name in K.QUOTERS:
        for k in range(1, n + 1):
            if k == 4 and name not in K.REQUOTERS:
                continue        # 4 code points only for the requoters (where escapes interact); the others stop at 3
            fams.append(Family("kernel/%s/n=%d" % (name, k), K.h_meaning, dict(name=name, n=k), backends=("py", "c")))
    fams += UF.families(UF.h_c02, tier)
    return fams
