"""C19 -- failures are reported only as ValueError/TypeError; nothing crashes."""
import os
from common import Family, call, outcome, all_of, any_of, sym_eq
import urlkit as U

PROPERTY = "C19"
LEVEL = "model_checking"
BUDGET = {"quick": 270, "thorough": 3000}
BOUNDS = {"quick": "URL(s) for all strings of <= 3 code points, URL(s, encoded=True) <= 4, plus authority skeletons; every accessor and nullary "
                   "method (discovered by introspection) on URLs from strings of <= 2 code points and from two authority skeletons; modifiers with a "
                   "1-code-point argument; build() with symbolic port and 2-code-point texts; compiled "
                   "quoter (lowered, BUF_SIZE 1..3): memory-safety assertions and every allocation-failure schedule for texts of <= 2 code points",
          "thorough": "URL(s) for strings of <= 4 code points (encoded=True: <= 5); accessors on strings of <= 3 and all skeletons; modifier arguments "
                      "<= 2 code points; allocation faults for texts of <= 3 code points"}
ASSUMPTIONS = ["symbolic host text that looks like an IP literal, non-ASCII authority text (NFKC) and IDNA of symbolic hosts are cut and counted "
               "(idna / unicodedata / ipaddress are not symbolically executed)",
               "port texts that only Python's int() accepts (sign, underscore, whitespace, non-ASCII digits) are cut and counted",
               "allocation failure is modelled at PyMem_Malloc/PyMem_Realloc of the lowered extension (one solver boolean per allocation); a real "
               "segfault or a failure inside CPython's own allocations is outside the model",
               "huge inputs and RecursionError are outside the bound"]
MANIFEST_ENTRY = {
    "text": "Bounded model checking: every feasible path of constructor + accessors + modifiers records its exception type; z3 decides that no path "
            "ends in anything but ValueError/TypeError and that returned URLs can be stringified. The lowered compiled quoter carries bounds/liveness "
            "checks on every memory access and a symbolic allocation-failure schedule; z3 decides that faults surface as MemoryError, nothing leaks or "
            "is freed twice, and the next call is correct.",
    "note": "Bounds in evidence.coverage.bounds. Trusted: sx engine + models (concordance-validated per path), z3, the pyx lowering and its C memory model.",
    "technique": "symbolic execution of the instrumented yarl source and of the lowered Cython source (symbolic allocator) with z3 (QF_BV)",
}

# accessors whose evaluation needs IDNA decoding of the host: evaluated last so that the counted exclusion cuts nothing else
IDNA_LAST = ("host", "authority", "human_repr")


discover = U.discover


def ok_type(r):
    """an exception is acceptable iff it is a ValueError or TypeError (UnicodeError is a ValueError)"""
    return r[0] in ("ok", "excluded") or isinstance(r[2], (ValueError, TypeError))


NSLOTS = 12


def exercise(ctx, u, label, slot):
    """accessors are spread over NSLOTS families so that the forks inside different accessors add up instead of multiplying"""
    P = ctx.P
    names, methods = discover(P)
    extra = [(str, "str"), (bytes, "bytes"), (hash, "hash"), (bool, "bool"), (repr, "repr")]
    todo = [(n, None) for n in names] + [(nm, fn) for fn, nm in extra]
    # IDNA-dependent accessors go last within their slot (a counted exclusion cuts the rest of the path)
    todo = todo[slot::NSLOTS]
    todo = [t for t in todo if t[0] not in IDNA_LAST] + [t for t in todo if t[0] in IDNA_LAST]
    for name, fn in todo:
        if fn is not None:
            r = call(fn, u)
        elif name in methods:
            r = call(lambda: getattr(u, name)())
        else:
            r = call(lambda: getattr(u, name))
        ctx.observe(label + "." + name, outcome(r))
        ctx.check("only-ValueError-TypeError:" + name, ok_type(r), r[1])


def h_ctor(ctx, n, encoded=False, skeleton=None, slot=None):
    s = ctx.str("s", n) if skeleton is None else U.text(ctx, skeleton)
    P = ctx.P
    r = call(P.URL, s, encoded=encoded)
    ctx.observe("URL", outcome(r))
    ctx.check("only-ValueError-TypeError:URL", ok_type(r), r[1])
    if r[0] == "ok":
        if slot is None:
            st = call(str, r[1])
            ctx.observe("str", outcome(st))
            ctx.check("only-ValueError-TypeError:str", ok_type(st), st[1])
        else:
            exercise(ctx, r[1], "u", slot)


MODIFIERS = [
    ("with_scheme", lambda u, a: u.with_scheme(a)), ("with_user", lambda u, a: u.with_user(a)),
    ("with_password", lambda u, a: u.with_password(a)), ("with_host", lambda u, a: u.with_host(a)),
    ("with_path", lambda u, a: u.with_path(a)), ("with_query", lambda u, a: u.with_query(a)),
    ("update_query", lambda u, a: u.update_query(a)), ("extend_query", lambda u, a: u.extend_query(a)),
    ("with_fragment", lambda u, a: u.with_fragment(a)), ("with_name", lambda u, a: u.with_name(a)),
    ("with_suffix", lambda u, a: u.with_suffix(a)), ("truediv", lambda u, a: u / a), ("joinpath", lambda u, a: u.joinpath(a)),
    ("join", None), ("without_query_params", lambda u, a: u.without_query_params("a")),
]
BASES = ["http://u:p@h:81/a/b.c?x=1#f", "//h", "/p/q", "", "x://:80", "http://[::1]/"]


def h_modifier(ctx, mname, base, n):
    P = ctx.P
    a = ctx.str("a", n)
    b = call(P.URL, base)
    if b[0] != "ok":
        ctx.check("base-only-ValueError-TypeError", ok_type(b), b[1])
        return
    u = b[1]
    if mname == "join":
        ref = call(P.URL, a)
        if ref[0] != "ok":
            ctx.check("only-ValueError-TypeError:URL(ref)", ok_type(ref), ref[1])
            return
        r = call(u.join, ref[1])
    else:
        fn = [f for nm, f in MODIFIERS if nm == mname][0]
        r = call(fn, u, a)
    ctx.observe(mname, outcome(r))
    ctx.check("only-ValueError-TypeError:" + mname, ok_type(r), r[1])
    if r[0] == "ok" and r[1] is not NotImplemented:
        st = call(str, r[1])
        ctx.observe("str", outcome(st))
        ctx.check("result-can-be-stringified:" + mname, st[0] == "ok", st[1])
        rc = U.raw_components(r[1])
        ctx.check("result-accessors-only-ValueError-TypeError:" + mname, ok_type(rc), rc[1])


def h_with_port(ctx, base):
    P = ctx.P
    p = ctx.int("port", -70000, 70000)
    u = P.URL(base)
    r = call(u.with_port, p)
    ctx.observe("with_port", outcome(r))
    ctx.check("only-ValueError-TypeError:with_port", ok_type(r), r[1])
    if r[0] == "ok":
        st = call(str, r[1])
        ctx.check("result-can-be-stringified:with_port", st[0] == "ok", st[1])


def h_build(ctx, host, n):
    P = ctx.P
    p = ctx.int("port", -70000, 70000)
    t = ctx.str("t", n)
    for kw in ("user", "password", "path", "query_string", "fragment"):
        args = dict(scheme="http", host=host, port=p)
        args[kw] = ("/" + t) if kw == "path" else t
        r = call(lambda: P.URL.build(**args))
        ctx.observe("build:" + kw, outcome(r))
        ctx.check("only-ValueError-TypeError:build", ok_type(r), r[1])
        if r[0] == "ok":
            st = call(str, r[1])
            ctx.observe("str:" + kw, outcome(st))
            ctx.check("built-url-can-be-stringified", st[0] == "ok", st[1])
            rc = U.raw_components(r[1])
            ctx.check("built-url-accessors-only-ValueError-TypeError", ok_type(rc), rc[1])


def h_noarg(ctx):
    """argument-count errors of the query methods are ValueError/TypeError (finite, concrete)"""
    P = ctx.P
    u = P.URL("http://h/?a=1")
    for nm in ("with_query", "extend_query", "update_query"):
        for f in (lambda: getattr(u, nm)(), lambda: getattr(u, nm)(**{}), lambda: getattr(u, nm)("a", "b"), lambda: getattr(u, nm)({"a": 1}, b=2)):
            r = call(f)
            ctx.check("only-ValueError-TypeError:" + nm, r[0] == "exc" and isinstance(r[2], (ValueError, TypeError)), (nm, r[:2]))
    ctx.observe("done", True)


def h_build_path(ctx, skeleton):
    """build(host=..., path=<rootless or dotted text>)"""
    P = ctx.P
    t = U.text(ctx, skeleton)
    for kw in (dict(scheme="http", host="h"), dict(scheme="", host=""), dict(scheme="x", authority="u@h:1")):
        r = call(lambda: P.URL.build(path=t, **kw))
        ctx.observe("build:" + kw.get("host", "") + kw.get("authority", ""), outcome(r))
        ctx.check("only-ValueError-TypeError:build(path)", ok_type(r), r[1])
        if r[0] == "ok":
            st = call(str, r[1])
            ctx.check("built-url-can-be-stringified", st[0] == "ok", st[1])


def h_build_authority(ctx, n):
    P = ctx.P
    a = ctx.str("a", n)
    ctx.note("build_authority", True)
    r = call(lambda: P.URL.build(scheme="http", authority=a, path="/"))
    ctx.observe("build", outcome(r))
    ctx.check("only-ValueError-TypeError:build(authority)", ok_type(r), r[1])
    if r[0] == "ok":
        st = call(str, r[1])
        ctx.observe("str", outcome(st))
        ctx.check("built-url-can-be-stringified", st[0] == "ok", st[1])
        rc = U.raw_components(r[1])
        ctx.check("built-url-accessors-only-ValueError-TypeError", ok_type(rc), rc[1])


SWEEP = r"""
import sys, json
sys.path.insert(0, sys.argv[1])
import _testcapi
from yarl import _quoting_c as qc
kind, cfg, cps = sys.argv[2], json.loads(sys.argv[3]), json.loads(sys.argv[4])
f = getattr(qc, kind)(**cfg)
bad = []
# three paddings: text that is rewritten, canonical escapes that are kept (the "unchanged" return), plain safe text
for pad in ("\u00e9" * 3000, "a%20b/" * 3000, "abcdefgh" * 2500):
    text = "".join(map(chr, cps)) + pad
    good = f(text)
    f(pad)
    for k in range(0, 24):
        exc = None
        _testcapi.set_nomemory(k, k + 1)
        try:
            try:
                f(text)
            except MemoryError:
                pass
            except BaseException as e:
                exc = type(e).__name__
        finally:
            _testcapi.remove_mem_hooks()
        if exc is not None:
            bad.append([k, exc])
        if f(text) != good:
            bad.append([k, "later call returned a different result"])
print(json.dumps(bad))
"""


def real_fault_sweep(pkg_dir, kind, cfg, s):
    import json
    import subprocess
    import sys
    p = subprocess.run([sys.executable, "-c", SWEEP, pkg_dir, kind, json.dumps(cfg), json.dumps([ord(c) for c in s])],
                       capture_output=True, text=True, timeout=120)
    if p.returncode != 0:
        return [["child", "exit status %d: %s" % (p.returncode, p.stderr[-200:])]]
    return json.loads(p.stdout.strip().splitlines()[-1])


def h_alloc(ctx, kind, cfg, n, max_faults):
    """compiled quoter under every allocation-failure schedule: MemoryError, no leak / double free / static free,
    and the next (fault-free) call returns the fault-free result"""
    P = ctx.P
    qc = P.quoting_c
    s = ctx.str("s", n)
    f = getattr(qc, kind)(**cfg)
    if not hasattr(qc, "_c"):
        # replay on the real extension (rebuilt from the working tree): the functional result is compared on every path;
        # for counterexamples (and a sample of path witnesses) every allocation-failure point is injected with
        # _testcapi.set_nomemory in a child process, on a text padded so that the output outgrows the 8 KiB buffer twice
        r = call(f, s)
        ctx.observe("fault-free", r[:2])
        if getattr(ctx, "purpose", "") == "counterexample" or (sum(map(ord, s)) % 16 == 0):
            bad = real_fault_sweep(os.path.dirname(os.path.dirname(qc.__file__)), kind, cfg, s)
            ctx.check("fault-surfaces-as-MemoryError", not bad, bad)
        return
    c = qc._c
    c.reset_heap()
    fails = []

    def schedule():
        k = len(fails)
        if k >= max_faults:
            fails.append(False)
            return False
        b = ctx.bool("fail%d" % k)
        fails.append(b)
        return b
    c.alloc_fail = schedule
    try:
        r = call(f, s)
    finally:
        c.alloc_fail = lambda: False
    anyfail = any_of(fails)
    ctx.note("alloc_calls", len(fails))
    if r[0] == "exc":
        ctx.check("fault-surfaces-as-MemoryError", r[1] == "MemoryError" and anyfail, r[1])
    ctx.check("no-leak", not c.leaked(), c.leaked())
    # a following call is unaffected
    c.reset_heap()
    r2 = call(f, s)
    ctx.observe("fault-free", r2[:2])
    ctx.check("next-call-ok", r2[0] == "ok", r2[1])
    if r[0] == "ok":
        ctx.check("result-unaffected-by-survived-faults", sym_eq(r[1], r2[1]))
    ctx.check("no-leak-2", not c.leaked(), c.leaked())


def families(tier):
    q = tier == "quick"
    fams = []
    for n in range(0, (4 if q else 5) + 1):
        if n <= 3 or (not q and n <= 4):
            fams.append(Family("ctor/free/n=%d" % n, h_ctor, dict(n=n)))
        fams.append(Family("ctor-encoded/free/n=%d" % n, h_ctor, dict(n=n, encoded=True)))
    for n in range(0, (2 if q else 3) + 1):
        for slot in range(NSLOTS):
            fams.append(Family("ctor/free/n=%d/accessors-%d" % (n, slot), h_ctor, dict(n=n, slot=slot)))
            fams.append(Family("ctor-encoded/free/n=%d/accessors-%d" % (n, slot), h_ctor, dict(n=n, encoded=True, slot=slot)))
    sks = [["//", None, None, ":", None], ["x://", None, "@", None], ["http://[", None, None, "]"], ["//a:", None, None, "/"],
           ["http://a/", None, "?", None, "#", None]]
    for i, sk in enumerate(sks):
        fams.append(Family("ctor/skeleton-%d" % i, h_ctor, dict(n=0, skeleton=sk)))
        fams.append(Family("ctor-encoded/skeleton-%d" % i, h_ctor, dict(n=0, skeleton=sk, encoded=True)))
        for slot in range(NSLOTS):
            if i == 1 or not q:
                fams.append(Family("ctor/skeleton-%d/accessors-%d" % (i, slot), h_ctor, dict(n=0, skeleton=sk, slot=slot)))
            if i in (0, 1) or not q:
                fams.append(Family("ctor-encoded/skeleton-%d/accessors-%d" % (i, slot), h_ctor, dict(n=0, skeleton=sk, encoded=True, slot=slot)))
    for mname, _ in MODIFIERS:
        for bi, base in enumerate(BASES if not q else BASES[:5]):
            for n in ((1,) if q else (1, 2)):
                fams.append(Family("modifier/%s/base-%d/n=%d" % (mname, bi, n), h_modifier, dict(mname=mname, base=base, n=n)))
    for bi, base in enumerate(["http://h/", "http://u@[::1]:1/", "//h"]):
        fams.append(Family("with_port/base-%d" % bi, h_with_port, dict(base=base)))
    for host in ("h", "::1", "1.2.3.4"):
        fams.append(Family("build/host=%s" % host, h_build, dict(host=host, n=1 if q else 2)))
    for n in range(0, (3 if q else 4) + 1):
        fams.append(Family("build-authority/n=%d" % n, h_build_authority, dict(n=n)))
    fams.append(Family("query-methods-argument-count", h_noarg, {}))
    DOT = ("in", "./a")
    for nm, sk in (("dots2", [DOT, DOT]), ("dots3", [DOT, DOT, DOT]), ("free2", [None, None])) + (() if q else (("dots4", [DOT, DOT, DOT, DOT]),)):
        fams.append(Family("build-path/%s" % nm, h_build_path, dict(skeleton=sk)))
    cfgs = [("_Quoter", dict()), ("_Quoter", dict(safe="@:", protected="/+")), ("_Quoter", dict(safe="?/:@", qs=True, requote=False))]
    for bs in (1, 2, 3):
        for kind, cfg in cfgs:
            for n in range(1, (2 if q else 3) + 1):
                fams.append(Family("alloc/%s/%s/BUF_SIZE=%d/n=%d" % (kind, "-".join("%s=%s" % kv for kv in sorted(cfg.items())) or "default", bs, n),
                                   h_alloc, dict(kind=kind, cfg=cfg, n=n, max_faults=3 if q else 4), backends=("c%d" % bs,)))
    return fams
