"""C12 -- query operations implement multi-dict algebra exactly."""
from common import Family, call, outcome, all_of, any_of, sym_eq
import urlkit as U

PROPERTY = "C12"
LEVEL = "model_checking"
BUDGET = {"quick": 240, "thorough": 2400}
BOUNDS = {"quick": "collision structure: <= 2 existing x <= 2 new pairs with keys chosen by the solver from {a, b, c}; text: one key or one value "
                   "of <= 2 free code points (all of Unicode, no lone surrogates) among concrete neighbours; one symbolic int in [-10^6, 10^6]; all "
                   "argument forms (str, dict, MultiDict, sequence of pairs, kwargs); rejected types concretely",
          "thorough": "<= 3 existing x <= 3 new pairs; texts of <= 2 free code points"}
ASSUMPTIONS = ["read-back goes through the models of urllib.parse.parse_qsl and multidict (its own pure-Python reference, instrumented; DESIGN 2.4), "
               "validated per path against the real parse_qsl and the compiled multidict (concordance)",
               "float rendering, bool/None/NaN/inf/bytes rejection and the argument-form dispatch are a finite type matrix executed concretely in the "
               "same harness (no solver involvement)",
               "existing queries are supplied as canonical text built from the chosen pairs", "lone surrogates are excluded"]
MANIFEST_ENTRY = {
    "text": "Bounded model checking of with_query / extend_query / update_query / without_query_params through the real _query.py and _url.py: the "
            "solver chooses every key-collision pattern and the key/value text and integer; z3 decides on every path that the resulting pairs equal "
            "a list-of-pairs reference algebra, that the argument is not mutated, and that rejected types raise TypeError/ValueError.",
    "note": "Bounds in evidence.coverage.bounds. Trusted: sx engine + models of parse_qsl and multidict (concordance-validated per path), z3.",
    "technique": "symbolic execution of the instrumented yarl source with z3 (QF_BV) against a list-of-pairs multi-dict algebra",
}
NS = ("ns",)


# ---- reference algebra on lists of pairs
def ref_extend(old, new):
    return list(old) + list(new)


def ref_update(old, new):
    """multidict.update semantics: the i-th new value of a key replaces the i-th old occurrence, surplus old occurrences of updated keys
    are dropped, surplus new ones are appended"""
    out = list(old)
    used = []           # [key, next start]
    for k, v in new:
        ent = None
        for e in used:
            if e[0] == k:
                ent = e
                break
        start = ent[1] if ent is not None else 0
        found = False
        for i in range(start, len(out)):
            if out[i][0] == k:
                out[i] = (k, v)
                if ent is None:
                    ent = [k, 0]
                    used.append(ent)
                ent[1] = i + 1
                found = True
                break
        if not found:
            out.append((k, v))
            if ent is None:
                ent = [k, 0]
                used.append(ent)
            ent[1] = len(out)
    res = []
    for i, (k, v) in enumerate(out):
        ent = None
        for e in used:
            if e[0] == k:
                ent = e
                break
        if ent is not None and i >= ent[1]:
            continue
        res.append((k, v))
    return res


def ref_without(old, names):
    return [(k, v) for k, v in old if not any(k == n for n in names)]


def pairs_of(u):
    return [(k, v) for k, v in u.query.items()]


def mk_md(ctx, pairs):
    """a MultiDict argument: the model class under symbolic execution, the real compiled one in replay"""
    if ctx.sym:
        from sx.models_ext import MD
        return MD.MultiDict(pairs)
    import multidict
    return multidict.MultiDict(pairs)


def keyhole(ctx, name):
    return ctx.str(name, 1, lo=97, hi=99)      # 'a' | 'b' | 'c', chosen by the solver


def h_collisions(ctx, n_old, n_new, op, form):
    P = ctx.P
    old = [(keyhole(ctx, "ok%d" % i), "o%d" % i) for i in range(n_old)]
    new = [(keyhole(ctx, "nk%d" % i), "n%d" % i) for i in range(n_new)]
    if form in ("dict", "kwargs"):
        # a dict cannot hold duplicate keys: constrain the new keys to be pairwise different
        for i in range(n_new):
            for j in range(i + 1, n_new):
                ctx.assume((new[i][0] == new[j][0]) == False, "dict keys are distinct")  # noqa: E712
    base_q = "&".join(k + "=" + v for k, v in old)
    u = P.URL("http://h/p?" + base_q + "#f") if n_old else P.URL("http://h/p#f")
    ctx.check("existing-pairs-read-back", sym_eq(pairs_of(u), old))
    if form == "list":
        arg = list(new)
    elif form == "tuple":
        arg = tuple(new)
    elif form == "multidict":
        arg = mk_md(ctx, new)
    elif form == "str":
        arg = "&".join(k + "=" + v for k, v in new)
    else:
        arg = None
    snapshot = list(new)
    if form == "dict":
        # symbolic keys cannot be hashed: a dict argument is exercised with concrete distinct keys only (see h_text for its values)
        r = None
    if op == "without":
        names = [k for k, v in new]
        ctx.assume(all_of([True]), "names")
        r = call(lambda: u.without_query_params(*[n for n in ("a", "b", "c")[:n_new]]))
        exp = ref_without(old, ("a", "b", "c")[:n_new])
    else:
        f = getattr(u, {"with": "with_query", "extend": "extend_query", "update": "update_query"}[op])
        r = call(f, arg)
        exp = list(new) if op == "with" else (ref_extend(old, new) if op == "extend" else ref_update(old, new))
    ctx.observe(op, outcome(r))
    ctx.check("no-exception", r[0] == "ok", r[1])
    got = pairs_of(r[1])
    ctx.observe("pairs", got)
    ctx.check("pairs-equal-reference-algebra", sym_eq(got, exp))
    ctx.check("other-components-unchanged", sym_eq((r[1].scheme, r[1].raw_authority, r[1].raw_path, r[1].raw_fragment),
                                                   (u.scheme, u.raw_authority, u.raw_path, u.raw_fragment)))
    if form in ("list", "tuple"):
        ctx.check("argument-not-mutated", sym_eq(list(arg), snapshot))
    elif form == "multidict":
        ctx.check("argument-not-mutated", sym_eq([(k, v) for k, v in arg.items()], snapshot))
    ctx.check("base-not-mutated", sym_eq(pairs_of(u), old))


def h_text(ctx, where, op, form, n):
    """one key or value of free text among concrete neighbours"""
    P = ctx.P
    t = ctx.str("t", n, no_surrogates=True)
    u = P.URL("http://h/?x=1&y=2")
    pair = (t, "v") if where == "key" else ("k", t)
    new = [("y", "9"), pair]
    if form == "list":
        arg = list(new)
    elif form == "multidict":
        arg = mk_md(ctx, new)
    elif form == "dict":
        if where == "key":
            return
        arg = {"y": "9", "k": t}
    elif form == "dict-list":
        if where == "key":
            return
        arg = {"y": ["9", t], "k": (t,)}
        new = [("y", "9"), ("y", t), ("k", t)]
    elif form == "kwargs":
        if where == "key":
            return
        arg = None
    f = getattr(u, {"with": "with_query", "extend": "extend_query", "update": "update_query"}[op])
    r = call(lambda: f(y="9", k=t)) if form == "kwargs" else call(f, arg)
    ctx.observe(op, outcome(r))
    ctx.check("no-exception", r[0] == "ok", r[1])
    got = pairs_of(r[1])
    ctx.observe("pairs", got)
    old = [("x", "1"), ("y", "2")]
    exp = list(new) if op == "with" else (ref_extend(old, new) if op == "extend" else ref_update(old, new))
    ctx.check("pairs-equal-reference-algebra", sym_eq(got, exp))
    again = call(P.URL, str(r[1]))
    ctx.check("result-reparses-to-same-pairs", again[0] == "ok" and sym_eq(pairs_of(again[1]), exp))


def h_int(ctx, op):
    P = ctx.P
    v = ctx.int("v", -1000000, 1000000)
    u = P.URL("http://h/?x=1")
    f = getattr(u, {"with": "with_query", "extend": "extend_query", "update": "update_query"}[op])
    r = call(f, [("n", v), ("x", v)])
    ctx.observe(op, outcome(r))
    ctx.check("no-exception", r[0] == "ok", r[1])
    got = pairs_of(r[1])
    ctx.observe("pairs", got)
    old = [("x", "1")]
    new = [("n", str(v)), ("x", str(v))]
    exp = list(new) if op == "with" else (ref_extend(old, new) if op == "extend" else ref_update(old, new))
    ctx.check("ints-rendered-by-str", sym_eq(got, exp))


def h_types(ctx):
    """finite type matrix (concrete)"""
    P = ctx.P
    u = P.URL("http://h/?a=1&b=2&a=3")
    for op in ("with_query", "extend_query", "update_query"):
        f = getattr(u, op)
        for bad in ({"k": True}, {"k": None}, {"k": float("nan")}, {"k": float("inf")}, {"k": b"x"}, {"k": [True]}, {"k": object()}, b"a=1", 5, object()):
            r = call(f, bad)
            ctx.check("rejected-with-TypeError-or-ValueError:" + op, r[0] == "exc" and r[1] in ("TypeError", "ValueError"), (op, repr(bad), r[1]))
        r = call(f, {"f": 1.5, "g": -0.0, "h": 1e22, "i": 3})
        ctx.check("floats-and-ints-rendered-by-str:" + op, r[0] == "ok" and [(k, v) for k, v in r[1].query.items()][-4:] ==
                  [("f", "1.5"), ("g", "-0.0"), ("h", "1e+22"), ("i", "3")], r[1])
        class F(float):
            pass

        class S(str):
            pass
        for badf in (F("nan"), F("inf"), F("-inf")):
            r = call(f, {"k": badf})
            ctx.check("float-subclass-nan-inf-rejected:" + op, r[0] == "exc" and r[1] in ("TypeError", "ValueError"), (op, repr(badf), r[1]))
        r = call(f, {"s": S("a&b=c+d%"), "t": F(2.5)})
        ctx.check("str-and-float-subclasses-quoted-like-their-base:" + op, r[0] == "ok" and [(k, v) for k, v in r[1].query.items()][-2:] ==
                  [("s", "a&b=c+d%"), ("t", "2.5")], r[1])
        import multidict
        md = multidict.MultiDict([("m", "1"), ("m", "2"), ("n", "3")])
        r = call(f, md)
        got = [(k, v) for k, v in r[1].query.items()] if r[0] == "ok" else None
        ctx.check("multidict-argument-keeps-repeated-keys:" + op, got is not None and got[-3:] == [("m", "1"), ("m", "2"), ("n", "3")], got)
        r = call(lambda: f({"k": "v"}, x="y"))
        ctx.check("kwargs-and-positional-rejected:" + op, r[0] == "exc" and r[1] == "ValueError", r[1])
        r = call(lambda: f())
        ctx.check("no-argument-rejected:" + op, r[0] == "exc" and r[1] == "ValueError", r[1])
    ctx.check("with_query(None)-clears", str(u.with_query(None)) == "http://h/")
    ctx.check("update_query(None)-clears", str(u.update_query(None)) == "http://h/")
    ctx.check("extend_query(None)-is-noop", u.extend_query(None) == u)
    ctx.check("empty-argument", str(u.with_query({})) == "http://h/" and u.update_query({}) == u and u.extend_query({}) == u)
    ctx.check("dict-list-expands", [(k, v) for k, v in u.with_query({"k": ["1", "2"], "m": ("3",)}).query.items()] == [("k", "1"), ("k", "2"), ("m", "3")])
    ctx.check("without_query_params", [(k, v) for k, v in u.without_query_params("a").query.items()] == [("b", "2")] and u.without_query_params("zz") == u)
    d = {"k": ["1"]}
    u.update_query(d)
    u.extend_query(d)
    u.with_query(d)
    ctx.check("dict-argument-not-mutated", d == {"k": ["1"]})
    ctx.observe("done", True)


def families(tier):
    q = tier == "quick"
    fams = []
    mo, mn = (2, 2) if q else (3, 3)
    for op in ("with", "extend", "update"):
        for form in ("list", "multidict", "str", "tuple"):
            for no in range(0, mo + 1):
                for nn in range(1, mn + 1):
                    if op == "with" and no > 1:
                        continue
                    fams.append(Family("collisions/%s/%s/old=%d/new=%d" % (op, form, no, nn), h_collisions, dict(n_old=no, n_new=nn, op=op, form=form)))
    for no in range(1, mo + 2):
        for nn in (1, 2):
            fams.append(Family("collisions/without/old=%d/names=%d" % (no, nn), h_collisions, dict(n_old=no, n_new=nn, op="without", form="names")))
    for op in ("with", "extend", "update"):
        for where in ("key", "value"):
            for form in ("list", "multidict", "dict", "dict-list", "kwargs"):
                if where == "key" and form in ("dict", "dict-list", "kwargs"):
                    continue
                for n in (1, 2):       # 3 free code points did not finish within 10 min on 16 cores (measured), so it is outside both tiers
                    fams.append(Family("text/%s/%s/%s/n=%d" % (op, where, form, n), h_text, dict(where=where, op=op, form=form, n=n)))
        fams.append(Family("int/%s" % op, h_int, dict(op=op)))
    fams.append(Family("types", h_types, {}))
    return fams
