#!/bin/bash
# offline: z3-solver (+ crosshair-tool as cross-check engine) from the local wheelhouse into /verif/.deps
cd "$(dirname "$0")"
export PIP_NO_INDEX=1
if [ ! -d .deps/z3 ]; then
  /venv/bin/pip install -q --no-index --find-links /opt/veriftools/wheels --target .deps z3-solver crosshair-tool
fi
/venv/bin/python -c "import sys; sys.path.insert(0,'.deps'); import z3; print('z3', z3.get_version_string())"
# validate the source rewrite and the pyx lowering against the repository's own tests (concrete mode, engine off)
tools/selftest_instrumented.py py 2>&1 | tail -1
tools/selftest_instrumented.py c 2>&1 | tail -1
