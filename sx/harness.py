"""Harness layer: families, symbolic/replay contexts, checks, concordance, known findings, parallel runner."""
import concurrent.futures as cf
import hashlib
import json
import multiprocessing as mp
import os
import random
import sys
import time
import traceback
import zlib

import z3

from . import core
from .core import E, SStr, SInt, SBool, SBytes, W, CP_MAX, Inconclusive, HarnessError, PathAbort, concretize, mk_bool, bv

SURR_LO, SURR_HI = 0xD800, 0xDFFF


class Family:
    def __init__(self, name, fn, params=None, backends=("py",), max_paths=None, note=""):
        self.name, self.fn, self.params = name, fn, dict(params or {})
        self.backends, self.max_paths, self.note = tuple(backends), max_paths, note

    def label(self, backend):
        return "%s[%s]" % (self.name, backend)


def enc_val(v):
    """JSON-safe encoding of a witness / observation value (surrogates and controls survive)"""
    if isinstance(v, str):
        if all(0x20 <= ord(c) <= 0x7E for c in v):
            return v
        return {"cp": [ord(c) for c in v], "repr": ascii(v)}
    if isinstance(v, bytes):
        return {"bytes": list(v)}
    if isinstance(v, (tuple, list)):
        return [enc_val(x) for x in v]
    if isinstance(v, dict):
        if all(isinstance(k, str) for k in v):
            return {"map": {k: enc_val(x) for k, x in v.items()}}
        return {"items": [[enc_val(k), enc_val(x)] for k, x in v.items()]}
    if v is None or isinstance(v, (bool, int)):
        return v
    if isinstance(v, BaseException):
        return {"exc": type(v).__name__}
    return {"repr": ascii(v)}


def dec_val(v):
    if isinstance(v, dict):
        if "cp" in v:
            return "".join(chr(c) for c in v["cp"])
        if "bytes" in v:
            return bytes(v["bytes"])
        if "map" in v:
            return {k: dec_val(x) for k, x in v["map"].items()}
        if "items" in v:
            return {dec_val(k): dec_val(x) for k, x in v["items"]}
        if "exc" in v:
            return "<" + v["exc"] + ">"
        return v.get("repr")
    if isinstance(v, list):
        return tuple(dec_val(x) for x in v)
    return v


class _Excluded:
    """observation marker: a counted exclusion was hit inside the observed call; concordance stops comparing here"""

    def __repr__(self):
        return "<excluded>"


EXCLUDED = _Excluded()


class WitnessExhausted(BaseException):
    """replay asked for an input the symbolic path never created (it stopped earlier at a counted exclusion)"""


class PathEnd(BaseException):
    """a check failed for every value of the path: nothing after it can be analysed, the path ends here"""


class Ctx:
    """Common interface of a harness run.  mode 'sym': inputs are symbolic, checks are solver queries;
    mode 'replay': inputs come from a witness, the package under test is the real one."""

    def __init__(self, mode, pkg, witness=None, known=None, prop=None):
        self.mode, self.P, self.witness = mode, pkg, witness or {}
        self.inputs = {}
        self.order = []
        self.obs = []
        self.failed = []          # replay: labels of failed checks
        self.candidates = []      # sym: (label, witness, info)
        self.known_hits = []      # sym: (finding id, label, witness)
        self.checks_reached = 0
        self.checks_discharged = 0
        self.ended_early = False
        self.known = known or []
        self.prop = prop
        self.notes = {}

    sym = property(lambda self: self.mode == "sym")

    # ---- inputs
    def _reg(self, name, v):
        if name in self.inputs:
            raise HarnessError("duplicate input name %r" % name)
        self.inputs[name] = v
        self.order.append(name)
        return v

    def str(self, name, n, lo=0, hi=CP_MAX, no_surrogates=False, alphabet=None):
        """n free code points (all of Unicode incl. surrogates unless restricted)"""
        if not self.sym:
            if name not in self.witness:
                raise WitnessExhausted(name)
            v = self.witness[name]
            if not isinstance(v, str) or len(v) != n:
                raise HarnessError("witness %r does not fit input %r" % (v, name))
            return self._reg(name, v)
        cs = []
        for i in range(n):
            # a code point is a 21-bit variable, zero-extended to the engine's word size (cheaper for the solver)
            c = z3.ZeroExt(W - 21, z3.BitVec("%s_%d" % (name, i), 21))
            E.solver.add(c >= lo, c <= hi)
            if no_surrogates and lo <= SURR_HI and hi >= SURR_LO:
                E.solver.add(z3.Or(c < SURR_LO, c > SURR_HI))
            if alphabet is not None:
                E.solver.add(core.in_ranges(c, core.ranges_of(alphabet)))
            E.iv[c.get_id()] = (lo, hi, c)
            cs.append(c)
        E.model = None
        return self._reg(name, SStr(cs) if n else "")

    def int(self, name, lo, hi):
        if not self.sym:
            if name not in self.witness:
                raise WitnessExhausted(name)
            return self._reg(name, int(self.witness[name]))
        v = z3.BitVec(name, W)
        E.solver.add(v >= lo, v <= hi)
        E.model = None
        E.iv[v.get_id()] = (lo, hi, v)
        return self._reg(name, SInt(v, lo, hi))

    def bool(self, name):
        if not self.sym:
            if name not in self.witness:
                raise WitnessExhausted(name)
            return self._reg(name, bool(self.witness[name]))
        return self._reg(name, SBool(z3.Bool(name)))

    def choice(self, name, options):
        """a solver-chosen element of a concrete list (forks)"""
        if not self.sym:
            return options[self._reg(name, int(self.witness[name]))]
        idx = self.int(name, 0, len(options) - 1)
        for k in range(len(options) - 1):
            if core.truth(idx == k):
                return options[k]
        return options[-1]

    def note(self, name, v):
        """intermediate value made available to known-finding predicates"""
        self.notes[name] = v

    # ---- assumptions / observations / checks
    def assume(self, cond, label="assume"):
        if self.sym:
            E.assume(cond if isinstance(cond, (SBool, bool)) else bool(cond), label)
        elif not cond:
            raise HarnessError("replay witness violates assumption %r" % label)

    def exclude(self, label):
        if self.sym:
            E.assume(False, label)
        raise HarnessError("replay witness reached exclusion %r" % label)

    def observe(self, label, v):
        self.obs.append((label, v))

    def _witness(self, model):
        return {k: concretize(self.inputs[k], model) for k in self.order}

    def fail(self, label, info=None):
        self.check(label, False, info)

    def check(self, label, cond, info=None):
        """postcondition: must hold for every value on this path"""
        self.checks_reached += 1
        if not self.sym:
            if isinstance(cond, (SBool, SInt)):
                raise HarnessError("symbolic value in replay mode")
            if not cond:
                self.failed.append(label)
            return
        if isinstance(cond, bool) or cond is None or not isinstance(cond, SBool):
            if cond:
                return
            neg = z3.BoolVal(True)
        else:
            neg = z3.Not(cond.z)
        kz = []
        E.no_fork += 1
        try:
            for kf in self.known:
                if label not in kf["labels"] and "*" not in kf["labels"]:
                    continue
                r = kf["pred"](self)
                kz.append((kf, core.zb(r)))
        finally:
            E.no_fork -= 1
        q = z3.And([neg] + [z3.Not(k) for _, k in kz])
        m = E.sat(q)
        self.checks_discharged += 1
        SMT_SAMPLE["n"] += 1
        if SMT_SAMPLE["left"] > 0 and (zlib.crc32(("%s|%d|%d" % (label, SMT_SAMPLE["n"], SMT_SAMPLE["salt"])).encode()) % SMT_SAMPLE["rate"]) == 0:
            # second-solver sample: the same postcondition query, exported as SMT-LIB 2
            try:
                s2 = z3.Solver()
                s2.add(E.solver.assertions())
                s2.add(q)
                SMT_SAMPLE["out"].append(("sat" if m is not None else "unsat", label, s2.to_smt2()))
                SMT_SAMPLE["left"] -= 1
            except Exception:
                pass
        if m is not None:
            try:
                info = ascii(concretize(info, m))[:300]
            except Exception:
                info = "<info>"
            self.candidates.append((label, self._witness(m), info))
        for kf, k in kz:
            mk = E.sat(z3.And(neg, k))
            self.checks_discharged += 1
            if mk is not None:
                self.known_hits.append((kf["id"], label, self._witness(mk)))
        # continue the path under the postcondition (later checks see a consistent state)
        if isinstance(cond, SBool):
            mm = E.sat(cond.z)
            if mm is None:
                raise PathEnd()       # violated for every value of the path; the path condition stays satisfiable
            E.solver.add(cond.z)
            E.model = mm
        else:
            raise PathEnd()

    def outcome(self, f, *a, **k):
        """call f; returns ('ok', value) or ('exc', exception type name); engine exceptions pass through"""
        try:
            return ("ok", f(*a, **k))
        except Exception as e:
            return ("exc", type(e).__name__, e)


def _has_excluded(v):
    if v is EXCLUDED:
        return True
    if isinstance(v, tuple) and len(v) >= 1 and isinstance(v[0], str) and v[0] == "excluded":
        return True          # raw result of common.call() whose outcome is outside the claim
    if isinstance(v, (tuple, list)):
        return any(_has_excluded(x) for x in v)
    return False


def obs_equal(a, b):
    if isinstance(a, (tuple, list)) and isinstance(b, (tuple, list)):
        return len(a) == len(b) and all(obs_equal(x, y) for x, y in zip(a, b))
    if isinstance(a, BaseException) or isinstance(b, BaseException):
        return type(a).__name__ == type(b).__name__
    if type(a) is not type(b) and not (isinstance(a, (int, bool)) and isinstance(b, (int, bool))):
        return False
    return a == b


# ----------------------------------------------------------------------------- runner
class Runner:
    """explores all families of one property; everything a worker needs is set before the pool forks"""

    def __init__(self, prop_id, families, pkgs, known, tier, seed, budget_s, workers=16, slice_paths=400,
                 no_concordance=False):
        self.prop, self.families, self.pkgs, self.known = prop_id, families, pkgs, known
        self.tier, self.seed, self.budget_s, self.workers, self.slice_paths = tier, seed, budget_s, workers, slice_paths
        self.no_concordance = no_concordance
        self.jobs = [(fi, b) for fi, f in enumerate(families) for b in f.backends]

    # ---- executed in workers
    def run_slice(self, job, prefixes, max_paths):
        fi, backend = job
        fam = self.families[fi]
        sx_pkg = self.pkgs["sx-" + backend]
        real_pkg = self.pkgs["real-" + backend]
        SMT_SAMPLE.update(left=3 if self.tier == "thorough" else 1, rate=25 if self.tier == "thorough" else 12, salt=self.seed, out=[])
        res = dict(job=job, paths=0, queries=0, solver_s=0.0, cand=[], known=[], conc=0, conc_bad=[],
                   samples=[], reached=0, discharged=0, assume={}, error=None, left=[], exc_paths={})
        E.reset_stats()
        E.assume_counts = {}
        global _LAST_JOB
        if _LAST_JOB != job:
            E.merge_cache.clear()      # the replay cache is only valid within one (family, backend)
            _LAST_JOB = job
        rng = random.Random(self.seed * 1000003 + hash((fi, backend, len(prefixes))) % 1000003)

        def one_path():
            ctx = Ctx("sym", sx_pkg, known=self.known, prop=self.prop)
            try:
                fam.fn(ctx, **fam.params)
            except PathEnd:
                ctx.ended_early = True
            m = E.get_model()
            wit = ctx._witness(m)
            sobs = [(l, concretize(v, m)) for l, v in ctx.obs]
            return ctx, wit, sobs

        def on_path(r):
            ctx, wit, sobs = r
            res["reached"] += ctx.checks_reached
            res["discharged"] += ctx.checks_discharged
            for label, w, info in ctx.candidates:
                res["cand"].append((label, w, info))
            for kid, label, w in ctx.known_hits:
                res["known"].append((kid, label, w))
            if not self.no_concordance:
                try:
                    rctx = Ctx("replay", real_pkg, witness=wit, prop=self.prop)
                    try:
                        fam.fn(rctx, **fam.params)
                    except WitnessExhausted:
                        if not any(_has_excluded(v) for l, v in sobs):
                            raise HarnessError("replay needs an input the symbolic path never created")
                    robs = rctx.obs
                    cut = [i for i, (l, v) in enumerate(sobs) if _has_excluded(v)]
                    if cut:
                        sobs, robs = sobs[:cut[0]], robs[:cut[0]]     # outcome outside the claim from here on
                    elif ctx.ended_early:
                        robs = robs[:len(sobs)]     # the symbolic path stopped at a check that fails for every value
                    ok = len(robs) == len(sobs) and all(a[0] == b[0] and obs_equal(a[1], b[1]) for a, b in zip(sobs, robs))
                    bad_checks = [l for l in rctx.failed if not any(l == c[0] for c in ctx.candidates) and
                                  not any(l == k[1] for k in ctx.known_hits)]
                    if cut or ctx.ended_early:
                        bad_checks = []
                    if ok and bad_checks:
                        # the real build fails a check on this witness although the symbolic run did not flag it (history kept by
                        # the real lru caches / shared objects that the engine by-passes, or a concrete-only family): the real run
                        # is the ground truth for a concrete input - hand it over as a counterexample (it is replayed once more)
                        for l in bad_checks:
                            res["cand"].append((l, wit, "failed on the real build during concordance"))
                    elif not ok or bad_checks:
                        res["conc_bad"].append(dict(witness=enc_val(wit), sym=enc_val(sobs), real=enc_val(robs),
                                                    failed_only_on_real=bad_checks))
                except (Inconclusive, HarnessError) as e:
                    res["conc_bad"].append(dict(witness=enc_val(wit), error=repr(e)))
                except Exception as e:
                    res["conc_bad"].append(dict(witness=enc_val(wit), error="replay raised " + repr(e),
                                                tb=traceback.format_exc()[-1500:]))
                res["conc"] += 1
            if len(res["samples"]) < 3 or rng.random() < 0.01:
                if len(res["samples"]) < 6:
                    res["samples"].append(dict(inputs=enc_val(wit), observed=enc_val(sobs)[:6]))

        try:
            res["left"] = core.explore(one_path, prefixes=prefixes, max_paths=max_paths, on_path=on_path, max_seconds=6)
        except Inconclusive as e:
            res["error"] = "INCONCLUSIVE " + type(e).__name__ + ": " + str(e) + " @ " + _where(e)
        except HarnessError as e:
            res["error"] = "HARNESS-ERROR " + str(e) + " @ " + _where(e)
        except Exception as e:
            res["error"] = ("HARNESS-ERROR uncaught " + repr(e) + " prefix=" + repr(E.prefix) + " trace=" + repr(E.trace) +
                            "\n" + traceback.format_exc()[-2500:])
        if E.n_unexpected_aborts and not res["error"]:
            res["error"] = "HARNESS-ERROR %d path(s) aborted unexpectedly (infeasible replay or dropped path)" % E.n_unexpected_aborts
        res["smt"] = [x for x in SMT_SAMPLE["out"] if len(x[2]) < 400000]
        res["paths"] = E.n_paths
        res["queries"] = E.n_queries
        res["solver_s"] = E.t_solver
        res["assume"] = dict(E.assume_counts)
        res["lines"] = sorted(_COV) if _COV is not None else []
        res["funcs"] = sorted(_FUNCS) if _FUNCS is not None else []
        return res

    # ---- master
    def run(self):
        t0 = time.time()
        stats = {j: dict(paths=0, queries=0, solver_s=0.0, conc=0, reached=0, discharged=0, slices=0) for j in self.jobs}
        cands, known_hits, conc_bad, samples, errors = [], [], [], [], []
        smt = []
        assume = {}
        lines, funcs = set(), set()
        start_coverage()
        ctxm = mp.get_context("fork")
        global _RUNNER
        _RUNNER = self
        pending = {}
        timed_out = False
        rng = random.Random(self.seed)
        order = list(self.jobs)
        rng.shuffle(order)
        with cf.ProcessPoolExecutor(max_workers=self.workers, mp_context=ctxm) as ex:
            queue = [(j, [[]]) for j in order]
            capped = {}

            def submit():
                while queue and len(pending) < self.workers * 2:
                    j, pre = queue.pop(0)
                    first = pre == [[]]
                    fut = ex.submit(_run_slice, j, pre, 25 if first else self.slice_paths)
                    pending[fut] = j
            submit()
            while pending:
                done, _ = cf.wait(list(pending), timeout=5, return_when=cf.FIRST_COMPLETED)
                if time.time() - t0 > self.budget_s:
                    timed_out = True
                    for f in pending:
                        f.cancel()
                    break
                for fut in done:
                    j = pending.pop(fut)
                    try:
                        r = fut.result()
                    except Exception as e:
                        errors.append("worker died: %r" % (e,))
                        continue
                    s = stats[j]
                    for k in ("paths", "queries", "solver_s", "conc", "reached", "discharged"):
                        s[k] += r[k]
                    s["slices"] += 1
                    if len(smt) < (240 if self.tier == "thorough" else 16):
                        smt += r.get("smt", [])
                    cands += [(j,) + c for c in r["cand"]]
                    known_hits += [(j,) + c for c in r["known"]]
                    conc_bad += [(j, c) for c in r["conc_bad"]]
                    for smp in r["samples"]:
                        if len(samples) < 12:
                            samples.append(dict(family=self.families[j[0]].label(j[1]), **smp))
                    for k, v in r["assume"].items():
                        assume[k] = assume.get(k, 0) + v
                    lines.update(tuple(x) for x in r["lines"])
                    funcs.update(r["funcs"])
                    if r["error"]:
                        errors.append("%s: %s" % (self.families[j[0]].label(j[1]), r["error"]))
                    left = r["left"]
                    fam = self.families[j[0]]
                    if fam.max_paths is not None and s["paths"] >= fam.max_paths and left:
                        capped[j] = capped.get(j, 0) + len(left)
                        left = []
                    if left:
                        # split the remaining subtrees over several slices
                        # fan out harder while workers would otherwise idle
                        k = max(1, min(len(left), 4 if len(queue) + len(pending) > self.workers * 2 else self.workers))
                        for i in range(k):
                            part = left[i::k]
                            if part:
                                queue.append((j, part))
                submit()
            if timed_out:
                procs = list((getattr(ex, "_processes", None) or {}).values())
                ex.shutdown(wait=False, cancel_futures=True)
                for p in procs:
                    try:
                        p.terminate()
                    except Exception:
                        pass
        return dict(stats=stats, cands=cands, known_hits=known_hits, conc_bad=conc_bad, samples=samples,
                    errors=errors, assume=assume, smt=smt, timed_out=timed_out, capped=capped, lines=lines, funcs=funcs,
                    wall=time.time() - t0)


_RUNNER = None
_LAST_JOB = None
SMT_SAMPLE = {"left": 0, "rate": 50, "salt": 0, "out": [], "n": 0}


def _run_slice(job, prefixes, max_paths):
    return _RUNNER.run_slice(job, prefixes, max_paths)


def _where(e):
    tb = traceback.extract_tb(e.__traceback__)
    for fr in reversed(tb):
        if "/sx/" not in fr.filename:
            return "%s:%d" % (os.path.basename(fr.filename), fr.lineno)
    return "%s:%d" % (os.path.basename(tb[-1].filename), tb[-1].lineno) if tb else "?"


# ----------------------------------------------------------------------------- coverage (sys.monitoring)
_COV = None
_FUNCS = None
REPO_YARL = os.path.join(os.environ.get("YARL_REPO", "/repo"), "yarl") + "/"
_TOOL = 3


def start_coverage():
    global _COV, _FUNCS
    if _COV is not None:
        return
    _COV, _FUNCS = set(), set()
    mon = sys.monitoring
    try:
        mon.use_tool_id(_TOOL, "sx-cov")
    except ValueError:
        return

    def on_line(code, line):
        fn = code.co_filename
        if fn.startswith(REPO_YARL):
            _COV.add((os.path.basename(fn), line))
        return mon.DISABLE

    def on_start(code, off):
        fn = code.co_filename
        if fn.startswith(REPO_YARL):
            _FUNCS.add(os.path.basename(fn) + ":" + code.co_qualname)
        return mon.DISABLE
    mon.register_callback(_TOOL, mon.events.LINE, on_line)
    mon.register_callback(_TOOL, mon.events.PY_START, on_start)
    mon.set_events(_TOOL, mon.events.LINE | mon.events.PY_START)
