"""sx: symbolic execution of instrumented Python source on z3 (QF_BV).

Engine (replay DFS with solver-decided branches) and symbolic value classes.
Strings/bytes have a *concrete length*; their elements are Python ints or
64-bit z3 bit-vector terms.  See DESIGN.md section 2.
"""
import sys
import time
import signal

import z3

W = 64
CP_MAX = 0x10FFFF
QUERY_TIMEOUT_MS = 20000
MAX_DECISIONS = 4000
MAG_LIMIT = 1 << 62


class Inconclusive(BaseException):
    """The engine cannot decide (limitation, budget, solver unknown).
    BaseException so that neither yarl's nor a harness's `except Exception` can swallow it."""


class Unsupported(Inconclusive):
    pass


class PathAbort(BaseException):
    """Path is infeasible or cut by an assumption. BaseException on purpose.
    reason 'assume' = cut by a counted assumption; anything else is unexpected (a replayed prefix was
    found feasible when it was created) and is reported."""

    def __init__(self, reason="infeasible"):
        self.reason = reason


class HarnessError(BaseException):
    pass


_BV_CACHE = {}


def bv(v):
    r = _BV_CACHE.get(v)
    if r is None:
        r = _BV_CACHE[v] = z3.BitVecVal(v, W)
    return r


class Engine:
    def __init__(self):
        self.active = False
        self.reset_stats()
        self.solver = None
        self.worklist = []
        self.prefix = []
        self.trace = []
        self.lits = None
        self.in_merge = 0
        self.no_fork = 0
        self.assume_counts = {}
        self.merge_cache = {}
        self.shadows = {}
        self.merge_applied = set()
        self.nmerge_bind = 0
        self.decided = {}
        self.bind_memo = {}
        self.pred_memo = {}
        self.iv = {}
        self.bind_log = []

    def reset_stats(self):
        self.n_queries = 0
        self.t_solver = 0.0
        self.n_paths = 0
        self.n_static = 0
        self.n_unexpected_aborts = 0

    # ---- path lifecycle
    def start_path(self, prefix):
        self.prefix = prefix
        self.trace = []
        self.solver = z3.Solver()
        self.solver.set("timeout", QUERY_TIMEOUT_MS)
        self.model = None
        self.nbind = 0
        self.nfresh = 0
        self.iv = {}
        self.bind_log = []
        self.nmerge = 0
        self.shadows = {}
        self.decided = {}
        self.bind_memo = {}
        self.pred_memo = {}
        self.lits = None
        self.in_merge = 0
        self.no_fork = 0
        self.active = True

    def end_path(self):
        self.active = False

    def _check(self, *extra):
        t = time.perf_counter()
        r = self.solver.check(*extra)
        self.n_queries += 1
        self.t_solver += time.perf_counter() - t
        if r == z3.unknown:
            raise Inconclusive("solver unknown: " + self.solver.reason_unknown())
        return (True, self.solver.model()) if r == z3.sat else (False, None)

    def add(self, cond):
        if self.in_merge:
            raise Unsupported("non-definitional constraint inside a merged (pure) function")
        self.solver.add(cond)
        self.model = None

    def fresh(self, name, lo=None, hi=None):
        self.nfresh += 1
        v = z3.BitVec(f"{name}", W)
        if lo is not None:
            self.solver.add(v >= lo)
        if hi is not None:
            self.solver.add(v <= hi)
        return v

    def bind(self, expr, lo=None, hi=None):
        """let-bind a (large) term to a fresh variable; [lo, hi] (if known) is remembered for the variable."""
        if not z3.is_expr(expr):
            return expr
        expr = z3.simplify(expr)
        if z3.is_bv_value(expr) or z3.is_const(expr):
            return expr
        memo = self.bind_memo.get(expr.get_id())
        if memo is not None:
            return memo[0]          # the same term was bound before on this path: reuse its variable
        self.nbind += 1
        v = z3.BitVec(f"_t{self.nbind}", W)
        d = v == expr
        self.solver.add(d)
        self.bind_log.append((d, v, lo, hi))
        self.model = None
        if lo is not None:
            self.iv[v.get_id()] = (lo, hi, v)
        if not self.in_merge:
            self.bind_memo[expr.get_id()] = (v, expr)
        return v

    def bind_pred(self, z, name, ranges):
        """Boolean variable standing for a (large, table-driven) character-class test of the term z;
        defined once per path and term, so the table enters the solver once"""
        key = (z.get_id(), name)
        hit = self.pred_memo.get(key)
        if hit is not None:
            return hit[0]
        if len(ranges) <= 8:
            b = in_ranges(z, ranges)
        else:
            self.nbind += 1
            b = z3.Bool("_p%d" % self.nbind)
            d = b == in_ranges(z, ranges)
            self.solver.add(d)
            self.bind_log.append((d, b, None, None))
            self.model = None
        self.pred_memo[key] = (b, z)
        return b

    def interval(self, z, default):
        """static interval remembered for a term (input variable or let-bound variable)"""
        r = self.iv.get(z.get_id())
        return (r[0], r[1]) if r is not None else default

    def get_model(self):
        if self.model is None:
            ok, m = self._check()
            if not ok:
                raise PathAbort()
            self.model = m
        return self.model

    def decide(self, cond):
        cond = z3.simplify(cond)
        if z3.is_true(cond):
            return True
        if z3.is_false(cond):
            return False
        return self._decide(cond)

    def _decide(self, cond):
        if self.no_fork:
            raise HarnessError("symbolic branch inside a no-fork region (known-finding predicate or oracle term)")
        k = len(self.trace)
        if k >= MAX_DECISIONS:
            raise Inconclusive("path exceeds %d symbolic decisions" % MAX_DECISIONS)
        h = _site()
        if k < len(self.prefix):
            d, h0 = self.prefix[k]
            if h0 != h:
                # replay must reach the same branch conditions in the same order (execution is deterministic)
                raise Inconclusive("non-deterministic replay: branch %d differs from the recorded one" % k)
            lit = cond if d else z3.Not(cond)
            self.solver.add(lit)
            self.trace.append((d, h))
            if self.lits is not None:
                self.lits.append(lit)
            self.model = None
            if k == len(self.prefix) - 1:
                ok, m = self._check()
                if not ok:
                    raise PathAbort()
                self.model = m
            self.decided[cond.get_id()] = (d, cond)
            return d
        hit = self.decided.get(cond.get_id())
        if hit is not None:
            # already decided on this path (implied by the path condition): no query, but the decision is
            # still recorded so that trace positions do not depend on cache hits
            self.trace.append((hit[0], h))
            return hit[0]
        m = self.get_model()
        d = z3.is_true(m.eval(cond, model_completion=True))
        ok, _ = self._check(z3.Not(cond) if d else cond)
        if ok:
            self.worklist.append(self.trace + [(not d, h)])
        lit = cond if d else z3.Not(cond)
        self.solver.add(lit)
        self.trace.append((d, h))
        if self.lits is not None:
            self.lits.append(lit)
        self.decided[cond.get_id()] = (d, cond)
        # current model still satisfies the added literal
        return d

    def sat(self, cond):
        """Is pc /\\ cond satisfiable?  Returns a model or None (no fork)."""
        cond = z3.simplify(cond)
        if z3.is_false(cond):
            return None
        ok, m = self._check(cond)
        return m if ok else None

    def merge_call(self, f, args, kw):
        """Function-level merging for a pure scalar function (DESIGN 2.3): enumerate its feasible sub-paths
        under the current path condition and return one ite term instead of forking the caller.
        Replays of a common prefix reach the same call with the same path condition (execution is
        deterministic), so the enumeration is cached per (decision trace so far, call number)."""
        self.nmerge += 1
        key = (tuple(self.trace), self.nmerge)
        ent = self.merge_cache.get(key)
        if ent is None:
            ent = self._merge_enumerate(f, args, kw)
            if len(self.merge_cache) > 200000:
                self.merge_cache.clear()
            self.merge_cache[key] = ent
        res, binds, nb, lo, hi = ent
        for d in binds:
            self.solver.add(d[0])
            self.bind_log.append(d)
            if d[2] is not None:
                self.iv[d[1].get_id()] = (d[2], d[3], d[1])
        self.nbind = nb
        if binds:
            self.model = None
        if res is None:
            raise PathAbort()
        if isinstance(res, int):
            return res
        return SInt(res, lo, hi)

    def _merge_enumerate(self, f, args, kw):
        saved = (self.prefix, self.trace, self.worklist, self.lits, self.model, self.decided)
        results = []
        binds = []
        sub = [[]]
        self.in_merge += 1
        nb0 = len(self.bind_log)
        try:
            while sub:
                pre = sub.pop()
                self.solver.push()
                self.prefix, self.trace, self.worklist, self.lits = pre, [], sub, []
                self.model = None
                self.decided = dict(saved[5])
                nb = len(self.bind_log)
                try:
                    r = f(*args, **kw)
                    results.append((self.lits, r))
                except PathAbort:
                    pass
                finally:
                    self.solver.pop()
                    # let-bindings made on the sub-path are definitions of fresh variables: keep them
                    for d in self.bind_log[nb:]:
                        self.solver.add(d[0])
        finally:
            self.in_merge -= 1
            self.prefix, self.trace, self.worklist, self.lits, self.model, self.decided = saved
            self.model = None
        binds = self.bind_log[nb0:]
        del self.bind_log[nb0:]
        if not results:
            return (None, binds, self.nbind, 0, 0)

        def tz(r):
            if isinstance(r, SInt):
                return r.z
            if isinstance(r, SBool):
                return z3.If(r.z, bv(1), bv(0))
            if isinstance(r, (int, bool)):
                return bv(int(r))
            raise Unsupported("merge_call: non-scalar result %r" % type(r))
        res = tz(results[-1][1])
        for lits, r in reversed(results[:-1]):
            res = z3.If(z3.And(lits) if lits else z3.BoolVal(True), tz(r), res)
        res = z3.simplify(res)
        lo = min(_iv(r)[0] for _, r in results)
        hi = max(_iv(r)[1] for _, r in results)
        if z3.is_bv_value(res):
            return (res.as_signed_long(), binds, self.nbind, lo, hi)
        nbefore = len(self.bind_log)
        v = self.bind(res, lo, hi)
        binds = binds + self.bind_log[nbefore:]
        del self.bind_log[nbefore:]
        return (v, binds, self.nbind, lo, hi)

    def assume(self, cond, label="assume"):
        """Constrain the path; an infeasible remainder is cut (counted)."""
        if isinstance(cond, SBool):
            c = z3.simplify(cond.z)
            if z3.is_true(c):
                return
            if z3.is_false(c):
                self.assume_counts[label] = self.assume_counts.get(label, 0) + 1
                raise PathAbort("assume")
            self.solver.add(c)
            if self.lits is not None:
                self.lits.append(c)
            if self.model is not None and not z3.is_true(self.model.eval(c, model_completion=True)):
                self.model = None
            if self.model is None:
                ok, m = self._check()
                if not ok:
                    self.assume_counts[label] = self.assume_counts.get(label, 0) + 1
                    raise PathAbort("assume")
                self.model = m
            return
        if not cond:
            self.assume_counts[label] = self.assume_counts.get(label, 0) + 1
            raise PathAbort("assume")


def _site():
    """source location (outside sx) of the branch being decided: replay-determinism guard"""
    f = sys._getframe(2)
    while f is not None:
        fn = f.f_code.co_filename
        if "/sx/" not in fn:
            return hash((fn, f.f_lineno)) & 0xFFFFFFFF
        f = f.f_back
    return 0


E = Engine()


# --------------------------------------------------------------------- values
class SBool:
    __slots__ = ("z",)

    def __init__(self, z):
        self.z = z

    def __bool__(self):
        return E.decide(self.z)

    def __or__(self, o):
        return SBool(z3.Or(self.z, zb(o)))
    __ror__ = __or__

    def __and__(self, o):
        return SBool(z3.And(self.z, zb(o)))
    __rand__ = __and__

    def __invert__(self):
        return SBool(z3.Not(self.z))

    def __eq__(self, o):
        if isinstance(o, (SBool, bool)):
            return SBool(self.z == zb(o))
        return NotImplemented

    def __ne__(self, o):
        if isinstance(o, (SBool, bool)):
            return SBool(self.z != zb(o))
        return NotImplemented

    def __hash__(self):
        raise Unsupported("hash(SBool)")

    def __repr__(self):
        return "SBool(%s)" % (self.z,)


def zb(x):
    if isinstance(x, SBool):
        return x.z
    if isinstance(x, SInt):
        return x.z != bv(0)
    return z3.BoolVal(bool(x))


def mk_bool(z):
    if z3.is_true(z):
        return True
    if z3.is_false(z):
        return False
    return SBool(z)


def truth(x):
    if isinstance(x, SBool):
        return E.decide(x.z)
    return bool(x)


def and_(*fs):
    v = None
    for f in fs:
        v = f()
        if not truth(v):
            return v
    return v


def or_(*fs):
    v = None
    for f in fs:
        v = f()
        if truth(v):
            return v
    return v


def not_(x):
    if isinstance(x, SBool):
        return SBool(z3.Not(x.z))
    return not x


def all_of(conds):
    """non-forking conjunction of bool/SBool"""
    zs = []
    for c in conds:
        if isinstance(c, SBool):
            zs.append(c.z)
        elif not c:
            return False
    if not zs:
        return True
    return mk_bool(z3.And(zs))


def any_of(conds):
    zs = []
    for c in conds:
        if isinstance(c, SBool):
            zs.append(c.z)
        elif c:
            return True
    if not zs:
        return False
    return mk_bool(z3.Or(zs))


def _iv(o):
    """static interval (lo, hi) of an int-like operand"""
    if isinstance(o, SInt):
        return o.lo, o.hi
    if isinstance(o, SBool):
        return 0, 1
    v = int(o)
    return v, v


def _bitbound(v):
    return (1 << max(int(v).bit_length(), 1)) - 1


class SInt:
    """Python int as a W-bit signed bit-vector.  [lo, hi] is a static over-approximation of the value
    (independent of the path condition): it guards against wrap-around (values must stay far inside
    64 bits, else Unsupported) and decides comparisons without the solver when the ranges are disjoint."""
    __slots__ = ("z", "lo", "hi")

    def __init__(self, z, lo=-(1 << 40), hi=(1 << 40)):
        if lo <= -MAG_LIMIT or hi >= MAG_LIMIT:
            raise Unsupported("integer magnitude guard exceeded")
        self.z = z
        self.lo = lo
        self.hi = hi

    @property
    def mag(self):
        return max(abs(self.lo), abs(self.hi)) + 1

    @staticmethod
    def _o(o):
        if isinstance(o, SInt):
            return o.z
        if isinstance(o, SBool):
            return z3.If(o.z, bv(1), bv(0))
        if isinstance(o, bool):
            return bv(int(o))
        if isinstance(o, int):
            if abs(o) >= MAG_LIMIT:
                raise Unsupported("integer magnitude guard exceeded")
            return bv(o)
        return None

    def __add__(self, o):
        z = self._o(o)
        if z is None:
            return NotImplemented
        a, b = _iv(o)
        return SInt(self.z + z, self.lo + a, self.hi + b)
    __radd__ = __add__

    def __sub__(self, o):
        z = self._o(o)
        if z is None:
            return NotImplemented
        a, b = _iv(o)
        return SInt(self.z - z, self.lo - b, self.hi - a)

    def __rsub__(self, o):
        z = self._o(o)
        if z is None:
            return NotImplemented
        a, b = _iv(o)
        return SInt(z - self.z, a - self.hi, b - self.lo)

    def __neg__(self):
        return SInt(-self.z, -self.hi, -self.lo)

    def __pos__(self):
        return self

    def __mul__(self, o):
        z = self._o(o)
        if z is None:
            return NotImplemented
        a, b = _iv(o)
        ps = (self.lo * a, self.lo * b, self.hi * a, self.hi * b)
        return SInt(self.z * z, min(ps), max(ps))
    __rmul__ = __mul__

    def __floordiv__(self, o):
        if isinstance(o, int) and o > 0:
            if self.lo < 0 and not truth(SBool(self.z >= 0)):
                raise Unsupported("floordiv of negative symbolic int")
            return SInt(z3.UDiv(self.z, bv(o)), max(self.lo, 0) // o, max(self.hi, 0) // o)
        raise Unsupported("symbolic divisor")

    def __mod__(self, o):
        if isinstance(o, int) and o > 0:
            if self.lo < 0 and not truth(SBool(self.z >= 0)):
                raise Unsupported("mod of negative symbolic int")
            return SInt(z3.URem(self.z, bv(o)), 0, o - 1)
        raise Unsupported("symbolic modulus")

    def __rshift__(self, o):
        if not isinstance(o, int):
            raise Unsupported("symbolic shift amount")
        return SInt(self.z >> o, self.lo >> o, self.hi >> o)  # arithmetic, like Python

    def __lshift__(self, o):
        if not isinstance(o, int):
            raise Unsupported("symbolic shift amount")
        return SInt(self.z << o, self.lo << o, self.hi << o)

    def __rlshift__(self, o):
        # const << sym (e.g. 1 << (ch & 7)): the shift amount must be statically small and non-negative
        if self.lo < 0 or self.hi > 40 or not isinstance(o, int) or o < 0:
            raise Unsupported("symbolic shift amount unbounded")
        return SInt(bv(o) << self.z, o << self.lo, o << self.hi)

    def _bitop(self, o, op):
        z = self._o(o)
        if z is None:
            return NotImplemented
        a, b = _iv(o)
        if op == "and":
            r = self.z & z
            if self.lo >= 0 and a >= 0:
                return SInt(r, 0, min(self.hi, b))
            if self.lo >= 0:
                return SInt(r, 0, self.hi)
            if a >= 0:
                return SInt(r, 0, b)
        else:
            r = (self.z | z) if op == "or" else (self.z ^ z)
            if self.lo >= 0 and a >= 0:
                return SInt(r, 0, _bitbound(max(self.hi, b)))
        m = _bitbound(max(abs(self.lo), abs(self.hi), abs(a), abs(b)))
        return SInt(r, -m - 1, m)

    def __and__(self, o):
        return self._bitop(o, "and")
    __rand__ = __and__

    def __or__(self, o):
        return self._bitop(o, "or")
    __ror__ = __or__

    def __xor__(self, o):
        return self._bitop(o, "xor")
    __rxor__ = __xor__

    def __eq__(self, o):
        z = self._o(o)
        if z is None:
            return NotImplemented
        a, b = _iv(o)
        if b < self.lo or a > self.hi:
            E.n_static += 1
            return False
        return mk_bool(self.z == z)

    def __ne__(self, o):
        z = self._o(o)
        if z is None:
            return NotImplemented
        a, b = _iv(o)
        if b < self.lo or a > self.hi:
            E.n_static += 1
            return True
        return mk_bool(self.z != z)

    def __lt__(self, o):
        z = self._o(o)
        if z is None:
            return NotImplemented
        a, b = _iv(o)
        if self.hi < a:
            E.n_static += 1
            return True
        if self.lo >= b:
            E.n_static += 1
            return False
        return mk_bool(self.z < z)

    def __le__(self, o):
        z = self._o(o)
        if z is None:
            return NotImplemented
        a, b = _iv(o)
        if self.hi <= a:
            E.n_static += 1
            return True
        if self.lo > b:
            E.n_static += 1
            return False
        return mk_bool(self.z <= z)

    def __gt__(self, o):
        z = self._o(o)
        if z is None:
            return NotImplemented
        a, b = _iv(o)
        if self.lo > b:
            E.n_static += 1
            return True
        if self.hi <= a:
            E.n_static += 1
            return False
        return mk_bool(self.z > z)

    def __ge__(self, o):
        z = self._o(o)
        if z is None:
            return NotImplemented
        a, b = _iv(o)
        if self.lo >= b:
            E.n_static += 1
            return True
        if self.hi < a:
            E.n_static += 1
            return False
        return mk_bool(self.z >= z)

    def __hash__(self):
        raise Unsupported("hash(SInt)")

    def __index__(self):
        raise Unsupported("symbolic int used as index / realised")
    __int__ = __index__

    def __bool__(self):
        if self.lo > 0 or self.hi < 0:
            return True
        return E.decide(self.z != bv(0))

    def __repr__(self):
        return "SInt(%s)" % (self.z,)

    def __format__(self, spec):
        raise Unsupported("format(SInt, %r) outside f-string hook" % spec)


def zi(x):
    if isinstance(x, SInt):
        return x.z
    if isinstance(x, SBool):
        return z3.If(x.z, bv(1), bv(0))
    return bv(int(x))


def ez(x):
    return bv(x) if isinstance(x, int) else x


def eq_elem(a, b):
    if isinstance(a, int) and isinstance(b, int):
        return z3.BoolVal(a == b)
    return ez(a) == ez(b)


def seq_eq(xs, ys):
    """element-wise equality of two equally long element sequences: bool or SBool (no fork)"""
    zs = []
    for a, b in zip(xs, ys):
        if isinstance(a, int) and isinstance(b, int):
            if a != b:
                return False
        elif a is not b:
            if isinstance(a, int) or isinstance(b, int):
                k, t = (a, b) if isinstance(a, int) else (b, a)
                iv = E.iv.get(t.get_id())
                if iv is not None and (k < iv[0] or k > iv[1]):
                    E.n_static += 1
                    return False
            zs.append(ez(a) == ez(b))
    if not zs:
        return True
    return SBool(zs[0] if len(zs) == 1 else z3.And(zs))


def simp_elem(z):
    if isinstance(z, int):
        return z
    z = z3.simplify(z)
    if z3.is_bv_value(z):
        return z.as_signed_long()
    return z


def in_ranges(z, ranges):
    """z3 Bool: code point z lies in one of the inclusive ranges"""
    if not ranges:
        return z3.BoolVal(False)
    iv = E.iv.get(z.get_id()) if E.active else None
    if iv is not None:
        lo, hi = iv[0], iv[1]
        ranges = [(a, b) for a, b in ranges if b >= lo and a <= hi]
        if not ranges:
            E.n_static += 1
            return z3.BoolVal(False)
        for a, b in ranges:
            if a <= lo and hi <= b:
                E.n_static += 1
                return z3.BoolVal(True)
    if len(ranges) > 8:
        if any(ranges[i][1] >= ranges[i + 1][0] for i in range(len(ranges) - 1)):
            ranges = sorted(ranges)
            assert all(ranges[i][1] < ranges[i + 1][0] for i in range(len(ranges) - 1)), "overlapping ranges"
        return _range_tree(z, ranges, 0, len(ranges))
    alts = [z == bv(a) if a == b else z3.And(z >= bv(a), z <= bv(b)) for a, b in ranges]
    return alts[0] if len(alts) == 1 else z3.Or(alts)


def _range_tree(z, ranges, lo, hi):
    """membership in sorted disjoint ranges as a balanced decision tree (much cheaper for the solver than a flat Or)"""
    if hi - lo == 1:
        a, b = ranges[lo]
        return z == bv(a) if a == b else z3.And(z >= bv(a), z <= bv(b))
    mid = (lo + hi) // 2
    return z3.If(z < bv(ranges[mid][0]), _range_tree(z, ranges, lo, mid), _range_tree(z, ranges, mid, hi))


_RANGE_CACHE = {}


def ranges_of(values):
    """sorted inclusive ranges covering a collection of ints (cached for str/bytes containers)"""
    key = values if isinstance(values, (str, bytes)) else None
    if key is not None and key in _RANGE_CACHE:
        return _RANGE_CACHE[key]
    vs = sorted(set(ord(c) for c in values) if isinstance(values, str) else set(values))
    out = []
    for v in vs:
        if out and v == out[-1][1] + 1:
            out[-1][1] = v
        else:
            out.append([v, v])
    out = [tuple(r) for r in out]
    if key is not None:
        _RANGE_CACHE[key] = out
    return out


class SSeq:
    __slots__ = ("e",)

    def __init__(self, e):
        self.e = tuple(e)

    def __len__(self):
        return len(self.e)

    def concrete(self):
        return all(isinstance(x, int) for x in self.e)

    def __bool__(self):
        return len(self.e) > 0


_UNI = {}


def unicode_ranges(name):
    """range table of a str predicate, from the running interpreter"""
    if name not in _UNI:
        pred = getattr(str, name)
        out = []
        start = None
        for c in range(0x110000):
            if pred(chr(c)):
                if start is None:
                    start = c
            elif start is not None:
                out.append((start, c - 1))
                start = None
        if start is not None:
            out.append((start, CP_MAX))
        _UNI[name] = out
    return _UNI[name]


def is_sym(x):
    return isinstance(x, (SStr, SInt, SBool, SBytes))


def deep_sym(x, depth=2):
    if isinstance(x, (SStr, SInt, SBool, SBytes)):
        return True
    if depth and isinstance(x, (list, tuple)):
        for y in x:
            if deep_sym(y, depth - 1):
                return True
    return False


class SStr(SSeq):
    """str with concrete length; elements int or z3 terms in [0, 0x10FFFF]"""
    __slots__ = ()

    @staticmethod
    def of(x):
        if isinstance(x, SStr):
            return x
        if isinstance(x, str):
            return SStr([ord(c) for c in x])
        raise TypeError("expected str, got %s" % type(x).__name__)

    def native(self):
        return "".join(chr(c) for c in self.e)

    def simp(self):
        return self.native() if self.concrete() else self

    def __repr__(self):
        return "SStr(%s)" % ",".join(chr(c) if isinstance(c, int) else "?" for c in self.e)

    def __str__(self):
        raise Unsupported("str(SStr) realisation")

    def __iter__(self):
        for c in self.e:
            yield chr(c) if isinstance(c, int) else SStr((c,))

    def __getitem__(self, i):
        if isinstance(i, slice):
            return SStr(self.e[i]).simp()
        if isinstance(i, SInt):
            raise Unsupported("symbolic index into str")
        c = self.e[i]
        return chr(c) if isinstance(c, int) else SStr((c,))

    def __add__(self, o):
        if isinstance(o, (str, SStr)):
            return SStr(self.e + SStr.of(o).e).simp()
        return NotImplemented

    def __radd__(self, o):
        if isinstance(o, (str, SStr)):
            return SStr(SStr.of(o).e + self.e).simp()
        return NotImplemented

    def __mul__(self, n):
        if isinstance(n, int):
            return SStr(self.e * n).simp()
        return NotImplemented
    __rmul__ = __mul__

    def __mod__(self, args):
        from . import models
        return models.str_percent(self, args)

    def __eq__(self, o):
        if not isinstance(o, (str, SStr)):
            return False
        o = SStr.of(o)
        if len(o.e) != len(self.e):
            return False
        return seq_eq(self.e, o.e)

    def __ne__(self, o):
        return not_(self.__eq__(o))

    def _cmp(self, o, lt_result, eq_result):
        if not isinstance(o, (str, SStr)):
            return NotImplemented
        o = SStr.of(o)
        for a, b in zip(self.e, o.e):
            if truth(mk_bool(eq_elem(a, b))):
                continue
            return lt_result if truth(mk_bool(ez(a) < ez(b))) else (not lt_result)
        if len(self.e) == len(o.e):
            return eq_result
        return lt_result if len(self.e) < len(o.e) else (not lt_result)

    def __lt__(self, o):
        return self._cmp(o, True, False)

    def __le__(self, o):
        return self._cmp(o, True, True)

    def __gt__(self, o):
        return self._cmp(o, False, False)

    def __ge__(self, o):
        return self._cmp(o, False, True)

    def __hash__(self):
        raise Unsupported("hash(SStr)")

    def __contains__(self, item):
        return truth(contains(self, item))

    # ---- predicates (single term, no fork)
    def isascii(self):
        return mk_bool(z3.And([ez(c) < 128 for c in self.e])) if self.e else True

    def _allin(self, name):
        if not self.e:
            return False
        r = unicode_ranges(name)
        conds = []
        for c in self.e:
            if isinstance(c, int):
                if not getattr(chr(c), name)():
                    return False
                continue
            conds.append(E.bind_pred(c, name, r))
        if not conds:
            return True
        return SBool(conds[0] if len(conds) == 1 else z3.And(conds))

    def isdigit(self):
        return self._allin("isdigit")

    def isdecimal(self):
        return self._allin("isdecimal")

    def isspace(self):
        return self._allin("isspace")

    def isprintable(self):
        if not self.e:
            return True
        return self._allin("isprintable")

    def isalpha(self):
        return self._allin("isalpha")

    def isalnum(self):
        return self._allin("isalnum")

    def startswith(self, p, start=0):
        if isinstance(p, tuple):
            return any_of([self.startswith(q, start) for q in p])
        p = SStr.of(p)
        seg = self.e[start:start + len(p.e)]
        if len(seg) != len(p.e):
            return False
        return SStr(seg) == p

    def endswith(self, p):
        if isinstance(p, tuple):
            return any_of([self.endswith(q) for q in p])
        p = SStr.of(p)
        if len(p.e) > len(self.e):
            return False
        if not p.e:
            return True
        return SStr(self.e[len(self.e) - len(p.e):]) == p

    # ---- case mapping (ASCII only)
    def _case(self, lo, hi, delta, what):
        out = []
        for c in self.e:
            if isinstance(c, int):
                out.append(ord(getattr(chr(c), what)()) if len(getattr(chr(c), what)()) == 1 else None)
                if out[-1] is None:
                    raise Unsupported("multi-char case mapping")
                continue
            if not truth(mk_bool(c < 128)):
                # stated exclusion: Unicode case mapping is table-driven and can change the length
                label = "%s() of a non-ASCII symbolic character" % what
                E.assume_counts[label] = E.assume_counts.get(label, 0) + 1
                raise PathAbort("assume")
            out.append(z3.If(z3.And(c >= lo, c <= hi), c + delta, c))
        return SStr(out).simp()

    def lower(self):
        return self._case(65, 90, 32, "lower")

    def upper(self):
        return self._case(97, 122, -32, "upper")

    # ---- searching (fork per candidate position, first-match semantics)
    def _norm(self, start, end):
        n = len(self.e)
        if start is None:
            start = 0
        if end is None:
            end = n
        if start < 0:
            start = max(0, n + start)
        if end < 0:
            end = max(0, n + end)
        return start, min(end, n)

    def find(self, sub, start=None, end=None):
        sub = SStr.of(sub)
        start, end = self._norm(start, end)
        m = len(sub.e)
        for i in range(start, end - m + 1):
            if truth(SStr(self.e[i:i + m]) == sub):
                return i
        return -1

    def rfind(self, sub, start=None, end=None):
        sub = SStr.of(sub)
        start, end = self._norm(start, end)
        m = len(sub.e)
        for i in range(end - m, start - 1, -1):
            if truth(SStr(self.e[i:i + m]) == sub):
                return i
        return -1

    def index(self, sub, *a):
        i = self.find(sub, *a)
        if i < 0:
            raise ValueError("substring not found")
        return i

    def count(self, sub):
        return len(self.split(sub)) - 1

    def partition(self, sep):
        i = self.find(sep)
        if i < 0:
            return (self.simp(), "", "")
        return (self[:i], sep, self[i + len(sep):])

    def rpartition(self, sep):
        i = self.rfind(sep)
        if i < 0:
            return ("", "", self.simp())
        return (self[:i], sep, self[i + len(sep):])

    def split(self, sep=None, maxsplit=-1):
        if sep is None:
            raise Unsupported("str.split() on whitespace")
        sep = SStr.of(sep)
        m = len(sep.e)
        if m == 0:
            raise ValueError("empty separator")
        out = []
        cur = 0
        i = 0
        n = len(self.e)
        while i <= n - m and (maxsplit < 0 or len(out) < maxsplit):
            if truth(SStr(self.e[i:i + m]) == sep):
                out.append(self[cur:i])
                i += m
                cur = i
            else:
                i += 1
        out.append(self[cur:])
        return out

    def rsplit(self, sep=None, maxsplit=-1):
        if maxsplit < 0:
            return self.split(sep)
        raise Unsupported("rsplit with maxsplit")

    def replace(self, old, new, count=-1):
        if count != -1:
            raise Unsupported("replace with count")
        return join_str(new, self.split(old))

    def join(self, parts):
        return join_str(self, parts)

    def _strip_set(self, chars):
        if chars is None:
            return None
        return chars

    def lstrip(self, chars=None):
        i = 0
        while i < len(self.e) and truth(self._strip_test(self.e[i], chars)):
            i += 1
        return self[i:]

    def rstrip(self, chars=None):
        j = len(self.e)
        while j > 0 and truth(self._strip_test(self.e[j - 1], chars)):
            j -= 1
        return self[:j]

    def strip(self, chars=None):
        r = self.lstrip(chars)
        return r.rstrip(chars) if isinstance(r, SStr) else r.strip(chars)

    def _strip_test(self, c, chars):
        if chars is None:
            return SStr((c,)).isspace()
        return contains(chars, SStr((c,)))

    def removeprefix(self, p):
        if truth(self.startswith(p)):
            return self[len(p):]
        return self.simp()

    def removesuffix(self, p):
        if len(p) and truth(self.endswith(p)):
            return self[:len(self.e) - len(p)]
        return self.simp()

    def encode(self, enc="utf-8", errors="strict"):
        from . import models
        return models.str_encode(self, enc, errors)

    def format(self, *a, **k):
        from . import models
        return models.str_format(self, a, k)


def join_str(sep, parts):
    e = []
    sep_e = SStr.of(sep).e
    for k, p in enumerate(parts):
        if k:
            e.extend(sep_e)
        e.extend(SStr.of(p).e)
    return SStr(e).simp()


def contains(container, item):
    """`item in container` as one term where possible (no fork)."""
    if not E.active or (not deep_sym(container) and not is_sym(item)):
        return item in container
    if isinstance(container, (str, SStr)):
        if not isinstance(item, (str, SStr)):
            raise TypeError("'in <string>' requires string as left operand")
        it = SStr.of(item)
        m = len(it.e)
        if m == 0:
            return True
        if m == 1 and isinstance(container, str):
            return mk_bool(in_ranges(ez(it.e[0]), ranges_of(container)))
        c = SStr.of(container)
        return any_of([seq_eq(c.e[i:i + m], it.e) for i in range(len(c.e) - m + 1)])
    if isinstance(container, (bytes, bytearray, SBytes)):
        els = list(container.e) if isinstance(container, SBytes) else list(container)
        if isinstance(item, (bytes, bytearray, SBytes)):
            raise Unsupported("bytes subsequence containment")
        iz = zi(item)
        if not isinstance(container, SBytes):
            return mk_bool(in_ranges(iz, ranges_of(bytes(container))))
        return mk_bool(z3.Or([ez(x) == iz for x in els])) if els else False
    if isinstance(container, dict):
        container = list(container.keys())
    if isinstance(container, (set, frozenset, list, tuple)) or hasattr(container, "__iter__"):
        conds = []
        for x in container:
            if isinstance(x, (str, SStr)) and isinstance(item, (str, SStr)):
                conds.append(SStr.of(x) == item)
            elif isinstance(x, (int, SInt)) and isinstance(item, (int, SInt)) and not isinstance(x, bool):
                conds.append(x == item if isinstance(x, SInt) else item == x)
            elif x is None or item is None:
                conds.append(x is item)
            elif is_sym(x) or is_sym(item):
                r = (x == item)
                conds.append(r if isinstance(r, (bool, SBool)) else False)
            else:
                conds.append(x == item)
        return any_of(conds)
    raise Unsupported("containment in %s" % type(container).__name__)


class SBytes(SSeq):
    __slots__ = ()

    def _wrap(self, x):
        return x if isinstance(x, int) else SInt(x, *E.interval(x, (0, 255)))

    def __repr__(self):
        return "%s(%s)" % (type(self).__name__, ",".join("%02x" % c if isinstance(c, int) else "?" for c in self.e))

    def __iter__(self):
        for c in self.e:
            yield self._wrap(c)

    def __getitem__(self, i):
        if isinstance(i, slice):
            return type(self)(self.e[i])
        if isinstance(i, SInt):
            raise Unsupported("symbolic index into bytes")
        return self._wrap(self.e[i])

    def __add__(self, o):
        oe = tuple(o) if isinstance(o, (bytes, bytearray)) else tuple(o.e)
        return type(self)(tuple(self.e) + oe)

    def __radd__(self, o):
        return SBytes(tuple(o) + tuple(self.e))

    def decode(self, enc="utf-8", errors="strict"):
        from . import models
        return models.bytes_decode(self, enc, errors)

    def __eq__(self, o):
        if isinstance(o, (bytes, bytearray)):
            oe = tuple(o)
        elif isinstance(o, SBytes):
            oe = tuple(o.e)
        else:
            return False
        if len(oe) != len(self.e):
            return False
        return seq_eq(self.e, oe)

    def __ne__(self, o):
        return not_(self.__eq__(o))

    def __hash__(self):
        raise Unsupported("hash(SBytes)")

    def __contains__(self, item):
        return truth(contains(self, item))

    def native(self):
        return bytes(self.e)


class SByteArray(SBytes):
    __slots__ = ()

    def __init__(self, e=()):
        if isinstance(e, int):
            e = [0] * e
        elif isinstance(e, SSeq):
            e = e.e
        self.e = list(e)

    @staticmethod
    def _el(x):
        return x.z if isinstance(x, SInt) else x

    def append(self, x):
        self.e.append(self._el(x))

    def extend(self, xs):
        for x in (xs.e if isinstance(xs, SSeq) else xs):
            self.e.append(self._el(x))

    def clear(self):
        self.e.clear()

    def __setitem__(self, i, v):
        self.e[i] = self._el(v)

    def __getitem__(self, i):
        if isinstance(i, slice):
            return SByteArray(self.e[i])
        if isinstance(i, SInt):
            raise Unsupported("symbolic index into bytearray")
        return self._wrap(self.e[i])

    def __iadd__(self, o):
        self.extend(o)
        return self


class HashKey:
    """opaque result of hash(x) on symbolic data: equality of keys == equality of hashed values"""
    __slots__ = ("v",)

    def __init__(self, v):
        self.v = v

    def __eq__(self, o):
        if isinstance(o, HashKey):
            return sym_eq(self.v, o.v)
        return NotImplemented

    def __ne__(self, o):
        return not_(self.__eq__(o))

    def __hash__(self):
        raise Unsupported("hash(HashKey)")


def sym_eq(a, b):
    """structural equality as one term (no fork) over str/int/None/tuple/list"""
    if isinstance(a, (tuple, list)) and isinstance(b, (tuple, list)):
        if type(a) is not type(b) and not (isinstance(a, tuple) and isinstance(b, tuple)):
            if isinstance(a, tuple) != isinstance(b, tuple):
                return False
        if len(a) != len(b):
            return False
        return all_of([sym_eq(x, y) for x, y in zip(a, b)])
    if isinstance(a, str) and isinstance(b, str):
        return a == b
    if isinstance(a, (str, SStr)) and isinstance(b, (str, SStr)):
        return SStr.of(a) == b
    if isinstance(a, (SInt, SBool)) or isinstance(b, (SInt, SBool)):
        if a is None or b is None or isinstance(a, (str, SStr)) or isinstance(b, (str, SStr)):
            return False
        r = a == b
        return r
    if is_sym(a) or is_sym(b):
        r = (a == b)
        return r if isinstance(r, (bool, SBool)) else False
    if isinstance(a, HashKey) or isinstance(b, HashKey):
        return a == b
    return a == b


def concretize(v, model):
    """evaluate a (possibly symbolic) value under a model to a plain Python value"""
    def ev(z):
        r = model.eval(z, model_completion=True)
        return r
    if isinstance(v, SStr):
        return "".join(chr(c if isinstance(c, int) else ev(c).as_long() & 0x1FFFFF) for c in v.e)
    if isinstance(v, SBytes):
        return bytes((c if isinstance(c, int) else ev(c).as_long()) & 0xFF for c in v.e)
    if isinstance(v, SInt):
        return ev(v.z).as_signed_long()
    if isinstance(v, SBool):
        return z3.is_true(ev(v.z))
    if isinstance(v, tuple):
        return tuple(concretize(x, model) for x in v)
    if isinstance(v, list):
        return [concretize(x, model) for x in v]
    if isinstance(v, dict):
        return {concretize(k, model): concretize(x, model) for k, x in v.items()}
    if isinstance(v, HashKey):
        return ("hash", concretize(v.v, model))
    return v


# ----------------------------------------------------------------- exploration
class PathTimeout(Inconclusive):
    pass


def _alarm(signum, frame):
    raise PathTimeout("path wall-clock limit exceeded")


def explore(fn, prefixes=None, max_paths=None, path_timeout=120, on_path=None, max_seconds=None):
    """Explore the subtrees rooted at `prefixes` (default: whole tree).

    fn() runs one path of the harness and returns a result; `on_path(result)`
    is called for every completed feasible path.  Returns the list of
    unexplored prefixes (non-empty only if max_paths was hit)."""
    E.worklist = list(prefixes) if prefixes is not None else [[]]
    done = 0
    t_end = time.time() + max_seconds if max_seconds else None
    old = signal.signal(signal.SIGALRM, _alarm)
    try:
        while E.worklist:
            if max_paths is not None and done >= max_paths:
                break
            if t_end is not None and done and time.time() > t_end:
                break
            prefix = E.worklist.pop()
            E.start_path(prefix)
            signal.alarm(path_timeout)
            try:
                r = fn()
            except PathAbort as e:
                if e.reason != "assume" and not E.in_merge:
                    E.n_unexpected_aborts += 1
                continue
            finally:
                signal.alarm(0)
                E.end_path()
            E.n_paths += 1
            done += 1
            if on_path is not None:
                on_path(r)
    finally:
        signal.signal(signal.SIGALRM, old)
    left = E.worklist
    E.worklist = []
    return left
