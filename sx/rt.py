"""facade imported into instrumented modules as _sx_rt_"""
from .core import truth, and_, or_, not_, contains
from .models import call, fstring, attr
