"""CLI: ./check <ID> [--tier quick|thorough] [--replay file] [--family substr] [--no-concordance]"""
import argparse
import atexit
import hashlib
import importlib
import importlib.abc
import importlib.machinery
import json
import os
import shutil
import subprocess
import sys
import sysconfig
import tempfile
import time

VERIF = os.path.dirname(os.path.dirname(os.path.abspath(__file__)))
REPO = os.environ.get("YARL_REPO", "/repo")
sys.path.insert(0, os.path.join(VERIF, ".deps"))
sys.path.insert(0, VERIF)

from sx import core, harness, instrument, models, models_ext  # noqa: E402
from sx.harness import Ctx, enc_val, dec_val  # noqa: E402

EXIT_OK, EXIT_VIOLATION, EXIT_INCONCLUSIVE = 0, 1, 2


def make_scratch():
    d = tempfile.mkdtemp(prefix="sx-", dir="/var/tmp")
    atexit.register(shutil.rmtree, d, ignore_errors=True)
    os.makedirs(os.path.join(d, "yarl"))
    for fn in os.listdir(os.path.join(REPO, "yarl")):
        if fn.endswith((".py", ".pyx", ".pyi", ".typed")):
            shutil.copy(os.path.join(REPO, "yarl", fn), os.path.join(d, "yarl", fn))
    return d


def build_extension(scratch):
    """rebuild _quoting_c from the working tree's .pyx into the scratch copy (never into /repo)"""
    t = time.time()
    pyx = os.path.join(scratch, "yarl", "_quoting_c.pyx")
    c = os.path.join(scratch, "yarl", "_quoting_c.c")
    r = subprocess.run([sys.executable, "-m", "cython", "-3", pyx, "-o", c], capture_output=True, text=True)
    if r.returncode:
        raise RuntimeError("cython failed:\n" + r.stdout + r.stderr)
    so = os.path.join(scratch, "yarl", "_quoting_c" + sysconfig.get_config_var("EXT_SUFFIX"))
    inc = sysconfig.get_paths()["include"]
    r = subprocess.run(["gcc", "-shared", "-fPIC", "-O1", "-fwrapv", "-I", inc, c, "-o", so], capture_output=True, text=True)
    if r.returncode:
        raise RuntimeError("gcc failed:\n" + r.stderr[-3000:])
    os.remove(c)
    return time.time() - t


def load_packages(need_c, buf_sizes=()):
    scratch = make_scratch()
    pkgs = {}
    info = {}
    pkgs["sx-py"] = instrument.load_yarl(REPO, True, "py")
    pkgs["real-py"] = instrument.load_yarl(scratch, False, "py")
    if need_c:
        from sx.pyx import lower
        info["ext_build_s"] = build_extension(scratch)
        pyx = os.path.join(REPO, "yarl", "_quoting_c.pyx")
        src = lower.lower_file(pyx, work=scratch)
        pkgs["sx-c"] = instrument.load_yarl(REPO, True, "c", lowered_source=src)
        pkgs["real-c"] = instrument.load_yarl(scratch, False, "c")
        for k in buf_sizes:
            srck = lower.lower_file(pyx, work=scratch, buf_size=k)
            pkgs["sx-c%d" % k] = instrument.load_yarl(REPO, True, "c", lowered_source=srck)
            pkgs["real-c%d" % k] = pkgs["real-c"]
    return pkgs, info


def load_known(prop_id):
    p = os.path.join(VERIF, "known_findings.json")
    if not os.path.exists(p):
        return [], []
    data = json.load(open(p))
    preds = instrument.load_instrumented_module("known_predicates", os.path.join(VERIF, "known_predicates.py"))
    open_, fixed = [], []
    for f in data["findings"]:
        if f["property"] != prop_id and prop_id not in f.get("also", []):
            continue
        if f["status"] == "open":
            open_.append(dict(id=f["id"], labels=f["labels"], pred=getattr(preds, f["predicate"]), what=f["what"]))
        else:
            fixed.append(f)
    return open_, fixed


class _PropsFinder(importlib.abc.MetaPathFinder):
    """modules under /verif/props (harnesses, oracles, helpers) are loaded through the instrumenter"""

    def find_spec(self, name, path=None, target=None):
        p = os.path.join(VERIF, "props", name + ".py")
        if "." in name or not os.path.exists(p):
            return None
        return importlib.machinery.ModuleSpec(name, instrument._Loader(p, True), origin=p)


def load_prop(prop_id):
    if not any(isinstance(f, _PropsFinder) for f in sys.meta_path):
        sys.meta_path.insert(0, _PropsFinder())
    return importlib.import_module(prop_id.lower())


def second_solver(samples, limit):
    """re-decide exported postcondition queries with /usr/bin/z3 (4.8.12) and /usr/bin/cvc5 (1.0.3); any `(error`, or a
    verdict that contradicts the one z3 5.1 gave through the Python API, is a problem (inconclusive)"""
    res = dict(queries=0, z3_binary_agree=0, cvc5_agree=0, cvc5_timeout=0, z3_binary_timeout=0, problems=[])
    if not samples:
        return res
    d = tempfile.mkdtemp(prefix="sx-smt-", dir="/var/tmp")
    try:
        for i, (expected, label, text) in enumerate(samples[:limit]):
            f = os.path.join(d, "q%d.smt2" % i)
            open(f, "w").write("(set-logic QF_BV)\n" + text)
            res["queries"] += 1
            for name, cmd in (("z3_binary", ["/usr/bin/z3", "-T:20", f]), ("cvc5", ["/usr/bin/cvc5", "--tlimit=20000", f])):
                try:
                    p = subprocess.run(cmd, capture_output=True, text=True, timeout=40)
                    o = (p.stdout + p.stderr).strip()
                except subprocess.TimeoutExpired:
                    o = "timeout"
                first = o.splitlines()[0].strip() if o else ""
                if "(error" in o:
                    res["problems"].append("second solver %s reported an error on a %s query (%s): %s" % (name, expected, label, o[:200]))
                elif first in ("sat", "unsat"):
                    if first == expected:
                        res[name + "_agree"] += 1
                    else:
                        res["problems"].append("second solver %s says %s where z3 5.1 said %s (check %s)" % (name, first, expected, label))
                else:
                    res[name + "_timeout"] += 1
    finally:
        shutil.rmtree(d, ignore_errors=True)
    return res


def _fmt_conc(c):
    w = dec_val(c.get("witness"))
    out = "input=%s" % ({k: ascii(v) for k, v in w.items()} if isinstance(w, dict) else ascii(w))
    if "error" in c:
        return out + " error=" + c["error"] + c.get("tb", "")
    so, ro = dec_val(c["sym"]), dec_val(c["real"])
    for a, b in zip(so, ro):
        if a != b:
            return out + " first difference: sym %s vs real %s" % (ascii(a), ascii(b))
    return out + " sym %s vs real %s failed_only_on_real=%s" % (ascii(so)[:300], ascii(ro)[:300], c.get("failed_only_on_real"))


def replay_witness(fam, pkg, witness, prop_id):
    ctx = Ctx("replay", pkg, witness=witness, prop=prop_id)
    ctx.purpose = "counterexample"
    fam.fn(ctx, **fam.params)
    return ctx


def main(argv=None):
    ap = argparse.ArgumentParser()
    ap.add_argument("prop")
    ap.add_argument("--tier", default=os.environ.get("VERIF_TIER", "quick"), choices=["quick", "thorough"])
    ap.add_argument("--replay")
    ap.add_argument("--family", default=None)
    ap.add_argument("--no-concordance", action="store_true")
    ap.add_argument("--workers", type=int, default=int(os.environ.get("VERIF_WORKERS", "16")))
    ap.add_argument("--budget", type=float, default=None)
    ap.add_argument("--no-evidence", action="store_true")
    a = ap.parse_args(argv)
    prop_id = a.prop.upper()
    seed = int(os.environ.get("VERIF_SEED", "0"))
    t0 = time.time()

    mod = load_prop(prop_id)
    fams = mod.families(a.tier)
    if a.family:
        fams = [f for f in fams if a.family in f.name]
    need_c = any(b != "py" for f in fams for b in f.backends)
    buf_sizes = sorted({int(b[1:]) for f in fams for b in f.backends if b.startswith("c") and b[1:]})
    try:
        pkgs, binfo = load_packages(need_c, buf_sizes)
    except Exception as e:
        print("INCONCLUSIVE property=%s reason=cannot load/lower/build the working tree: %r" % (prop_id, e))
        import traceback
        traceback.print_exc()
        return EXIT_INCONCLUSIVE
    known, fixed = load_known(prop_id)

    if a.replay:
        rec = json.load(open(a.replay))
        fam = [f for f in mod.families(rec.get("tier", "thorough")) if f.name == rec["family"]]
        if not fam:
            fam = [f for f in mod.families("quick") if f.name == rec["family"]]
        fam = fam[0]
        wit = dec_val(rec["witness"])
        ctx = replay_witness(fam, pkgs["real-" + rec["backend"]], wit, prop_id)
        print("replay family=%s backend=%s witness=%s" % (rec["family"], rec["backend"], {k: ascii(v) for k, v in wit.items()}))
        for l, v in ctx.obs:
            print("  observed %s = %s" % (l, ascii(v)))
        if rec["label"] in ctx.failed:
            print("VIOLATION property=%s replay=%s" % (prop_id, a.replay))
            print("  failed check: %s" % rec["label"])
            return EXIT_VIOLATION
        print("check %r holds on this input (failed checks: %s)" % (rec["label"], ctx.failed))
        return EXIT_OK

    budget = a.budget or mod.BUDGET[a.tier]
    runner = harness.Runner(prop_id, fams, pkgs, known, a.tier, seed, budget, workers=a.workers,
                            slice_paths=getattr(mod, "SLICE", 400), no_concordance=a.no_concordance)
    out = runner.run()

    problems = list(out["errors"])
    if out["timed_out"]:
        problems.append("time budget of %ds exhausted before the work list was empty" % budget)
    for j, c in out["conc_bad"][:5]:
        problems.append("concordance mismatch in %s: %s" % (fams[j[0]].label(j[1]), _fmt_conc(c)))
    if len(out["conc_bad"]) > 5:
        problems.append("... %d concordance mismatches in total" % len(out["conc_bad"]))
    for j, s in out["stats"].items():
        if s["paths"] and not s["reached"] and not getattr(fams[j[0]], "no_checks", False):
            problems.append("vacuous: no feasible path of %s reaches a check" % fams[j[0]].label(j[1]))
        if not s["paths"]:
            problems.append("vacuous: no feasible path in %s" % fams[j[0]].label(j[1]))

    # ---- second solver: a seeded sample of postcondition queries re-decided by the z3 4.8 and cvc5 1.0 binaries
    second = second_solver(out.get("smt", []), 200 if a.tier == "thorough" else 12)
    for msg in second["problems"]:
        problems.append(msg)

    # ---- counterexamples: replay on the real build before reporting
    os.makedirs(os.path.join(VERIF, "replays"), exist_ok=True)
    violations, seen = [], set()
    nonrepro = 0
    for j, label, wit, info in out["cands"]:
        fam = fams[j[0]]
        key = (fam.name, j[1], label)
        try:
            ctx = replay_witness(fam, pkgs["real-" + j[1]], wit, prop_id)
            ok = label in ctx.failed
        except BaseException as e:
            ok = False
            problems.append("replay of counterexample raised %r" % (e,))
        if not ok:
            nonrepro += 1
            if nonrepro <= 3:
                problems.append("counterexample does not reproduce on the real code (encoding/model error): %s %s %s"
                                % (fam.label(j[1]), label, {k: ascii(v) for k, v in wit.items()}))
            continue
        if key in seen:
            continue
        seen.add(key)
        rec = dict(property=prop_id, family=fam.name, backend=j[1], label=label, tier=a.tier,
                   witness=enc_val(wit), info=ascii(info),
                   observed=[[l, enc_val(v)] for l, v in ctx.obs][:20])
        h = hashlib.sha1(json.dumps(rec, sort_keys=True).encode()).hexdigest()[:10]
        path = os.path.join(VERIF, "replays", "%s-%s.json" % (prop_id, h))
        json.dump(rec, open(path, "w"), indent=1)
        violations.append((path, fam.label(j[1]), label, wit))
    known_printed = {}
    for j, kid, label, wit in out["known_hits"]:
        if kid in known_printed:
            continue
        fam = fams[j[0]]
        try:
            ctx = replay_witness(fam, pkgs["real-" + j[1]], wit, prop_id)
            ok = label in ctx.failed
        except BaseException as e:
            ok = False
        if ok:
            known_printed[kid] = (fam.label(j[1]), label, wit)
    for kf in known:
        if kf["id"] in known_printed:
            fl, label, wit = known_printed[kf["id"]]
            print("KNOWN-FINDING: property=%s %s [%s; e.g. %s in %s]" % (prop_id, kf["what"], kf["id"],
                  {k: ascii(v) for k, v in wit.items()}, fl))

    tot = dict(paths=0, queries=0, solver_s=0.0, conc=0, reached=0, discharged=0)
    fam_ev = []
    for j, s in out["stats"].items():
        for k in tot:
            tot[k] += s[k]
        fam_ev.append(dict(family=fams[j[0]].label(j[1]), paths=s["paths"], solver_queries=s["queries"],
                           postcondition_queries=s["discharged"], witnesses_replayed=s["conc"],
                           note=fams[j[0]].note, capped_subtrees=out["capped"].get(j, 0)))
    anchors = getattr(mod, "ANCHORS", [])
    exhaustive = not problems and not out["capped"]
    level = getattr(mod, "LEVEL", "model_checking")
    cov = dict(states=tot["paths"], transitions=tot["queries"], traces_validated_against_impl=tot["conc"],
               samples=out["samples"] or [{"note": "no feasible path"}],
               postcondition_queries=tot["discharged"], checks_reached=tot["reached"],
               solver="z3 %s (QF_BV, python API)" % core.z3.get_version_string(), solver_time_s=round(tot["solver_s"], 1),
               functions_encoded=sorted(out["funcs"]), lines_covered_by_feasible_paths=len(out["lines"]),
               families=fam_ev, bounds=getattr(mod, "BOUNDS", {}).get(a.tier, ""),
               exhaustive_within_bounds=exhaustive, exhaustive=False,
               known_findings_hit=sorted(known_printed), problems=problems[:20],
               assumption_cut_counts=out["assume"], build=binfo,
               second_solver={k: v for k, v in second.items() if k != "problems"})
    if level == "translation_validation":
        cov.update(programs=2, disagreements_checked=tot["discharged"])
    ev = dict(property_id=prop_id, tier=a.tier, seed=seed, level=level, coverage=cov,
              assumptions=list(getattr(mod, "ASSUMPTIONS", [])), wall_s=round(time.time() - t0, 1),
              violations=len(violations))
    if not a.no_evidence and not a.family:
        os.makedirs(os.path.join(VERIF, "evidence"), exist_ok=True)
        json.dump(ev, open(os.path.join(VERIF, "evidence", prop_id + ".json"), "w"), indent=1)

    print("%s tier=%s families=%d paths=%d solver_queries=%d postcondition_queries=%d replayed=%d solver=%.0fs wall=%.0fs"
          % (prop_id, a.tier, len(out["stats"]), tot["paths"], tot["queries"], tot["discharged"], tot["conc"],
             tot["solver_s"], time.time() - t0))
    for path, fl, label, wit in violations[:8]:
        print("VIOLATION property=%s replay=%s" % (prop_id, path))
        print("  family=%s check=%s input=%s" % (fl, label, {k: ascii(v) for k, v in wit.items()}))
    if violations:
        return EXIT_VIOLATION
    if problems:
        for p in problems[:12]:
            print("INCONCLUSIVE property=%s reason=%s" % (prop_id, p if os.environ.get("VERIF_DEBUG") else p.split("\n")[0][:1200]))
        return EXIT_INCONCLUSIVE
    print("OK property=%s held on every feasible path within the stated bounds" % prop_id)
    return EXIT_OK


if __name__ == "__main__":
    rc = main()
    sys.stdout.flush()
    os._exit(rc) if rc is not None and False else sys.exit(rc)
