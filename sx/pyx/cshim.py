"""C-semantics runtime for the lowered _quoting_c.pyx: fixed-width integers, bounds/liveness-checked
memory with identity (pointers), PyMem_* with an injectable failure schedule, the CPython unicode
API subset the file uses.  Works on concrete ints and on sx symbolic values."""
import z3

from ..core import E, W, SInt, SBool, SStr, SBytes, Unsupported, bv, ez, truth, mk_bool, contains as sx_contains, CP_MAX
from .. import models

BITS = {"uint8_t": (8, False), "uint64_t": (64, False), "Py_UCS4": (32, False), "int": (32, True), "long": (64, True),
        "Py_ssize_t": (64, True), "char": (8, True), "unsigned int": (32, False), "bint": (1, False),
        "unsigned char": (8, False), "size_t": (64, False), "unsigned long": (64, False), "short": (16, True)}


def _select(iz, data, lo, hi):
    """data[iz] for lo <= iz <= hi as a balanced decision tree"""
    if lo == hi or all(isinstance(d, int) and d == data[lo] for d in data[lo:hi + 1]):
        return ez(data[lo])
    mid = (lo + hi) // 2
    return z3.If(iz <= mid, _select(iz, data, lo, mid), _select(iz, data, mid + 1, hi))


class CMemoryError(AssertionError):
    """memory-safety violation in the lowered C code (out of bounds, use after free, double free, ...)"""


class Array:
    def __init__(self, et, n, static=False, name=""):
        self.et, self.n, self.static, self.name = et, n, static, name
        self.data = [0] * n
        self.live = True


class Ptr:
    __slots__ = ("arr", "off")

    def __init__(self, arr, off=0):
        self.arr, self.off = arr, off

    def __eq__(self, o):
        if o is None:
            return False
        if isinstance(o, Array):
            return self.arr is o and self.off == 0
        return self.arr is o.arr and self.off == o.off

    def __ne__(self, o):
        return not self.__eq__(o)

    def __hash__(self):
        return id(self.arr) ^ self.off


class Struct:
    pass


class _Uninit:
    def __repr__(self):
        return "UNINIT"

    def _bad(self, *a):
        raise CMemoryError("read of an uninitialised C variable")
    __add__ = __radd__ = __sub__ = __lt__ = __le__ = __gt__ = __ge__ = __and__ = __or__ = __bool__ = __index__ = _bad


class C:
    NULL = None
    UNINIT = _Uninit()

    def __init__(self):
        self.structs = {}
        self.pending = None
        self.alloc_fail = lambda: False      # failure schedule of PyMem_Malloc/Realloc (C19 makes it symbolic)
        self.heap = []
        self.n_alloc = 0

    # ---- integers
    def wrap(self, t, v):
        if isinstance(v, bool):
            v = int(v)
        bits, signed = BITS[t]
        if isinstance(v, SBool):
            v = SInt(z3.If(v.z, bv(1), bv(0)), 0, 1)
        if isinstance(v, SInt):
            lo, hi = (-(1 << (bits - 1)), (1 << (bits - 1)) - 1) if signed else (0, (1 << bits) - 1)
            if t == "bint":
                if v.lo >= 0 and v.hi <= 1:
                    return v
                return SInt(z3.If(v.z != bv(0), bv(1), bv(0)), 0, 1)
            if v.lo >= lo and v.hi <= hi:
                return v
            if bits >= W:
                raise Unsupported("64-bit wrap-around of a symbolic value")
            z = z3.Extract(bits - 1, 0, v.z)
            z = z3.SignExt(W - bits, z) if signed else z3.ZeroExt(W - bits, z)
            return SInt(E.bind(z, lo, hi), lo, hi)
        if v is C.UNINIT:
            raise CMemoryError("read of an uninitialised C variable")
        if t == "bint":
            return 1 if v else 0
        v &= (1 << bits) - 1
        if signed and v >= 1 << (bits - 1):
            v -= 1 << bits
        return v

    def defstruct(self, name, fields):
        self.structs[name] = fields

    def struct(self, name):
        s = Struct()
        for f in self.structs[name]:
            setattr(s, f, C.UNINIT)
        return s

    def array(self, et, n, static=False, name=""):
        return Array(et, n, static, name)

    def ref(self, x):
        return x

    def addr(self, arr, i):
        return Ptr(arr, i)

    # ---- memory
    def _res(self, p, i):
        if p is None:
            raise CMemoryError("NULL pointer dereference")
        if isinstance(p, Ptr):
            arr, i = p.arr, p.off + i
        else:
            arr = p
        if not arr.live:
            raise CMemoryError("use after free of %s" % arr.name)
        if isinstance(i, SInt):
            if truth(mk_bool(z3.And(i.z >= 0, i.z < arr.n))):
                return arr, i
            raise CMemoryError("out-of-bounds access %s[symbolic] size %d" % (arr.name, arr.n))
        if not 0 <= i < arr.n:
            raise CMemoryError("out-of-bounds access %s[%d] size %d" % (arr.name, i, arr.n))
        return arr, i

    def load(self, p, i):
        arr, i = self._res(p, i)
        bits, signed = BITS[arr.et]
        lo, hi = (-(1 << (bits - 1)), (1 << (bits - 1)) - 1) if signed else (0, (1 << bits) - 1)
        if isinstance(i, SInt):
            if arr.n > 4096:
                raise Unsupported("symbolic index into a large array")
            lo_i, hi_i = max(i.lo, 0), min(i.hi, arr.n - 1)
            vals = arr.data[lo_i:hi_i + 1]
            # runs of equal concrete entries are merged, the rest is a balanced ite tree on the index
            e = _select(i.z, arr.data, lo_i, hi_i)
            if all(isinstance(d, int) for d in vals):
                lo, hi = min(vals), max(vals)
            return SInt(E.bind(e, lo, hi), lo, hi)
        v = arr.data[i]
        if isinstance(v, int):
            return v
        return SInt(v, *E.interval(v, (lo, hi)))

    def store(self, p, i, v):
        arr, i = self._res(p, i)
        if isinstance(i, SInt):
            raise Unsupported("store through a symbolic index")
        w = self.wrap(arr.et, v)
        arr.data[i] = w.z if isinstance(w, SInt) else w

    def sizeof(self, x):
        return x.n * BITS[x.et][0] // 8

    def memset(self, a, v, n):
        for i in range(n):
            self.store(a, i, v)

    def memcpy(self, d, s, n):
        for i in range(n):
            self.store(d, i, self.load(s, i))

    def _fail(self):
        return truth(self.alloc_fail())

    def PyMem_Malloc(self, n):
        self.n_alloc += 1
        if self._fail():
            return None
        a = Array("char", n, name="heap#%d" % self.n_alloc)
        self.heap.append(a)
        return Ptr(a, 0)

    def PyMem_Realloc(self, p, n):
        self.n_alloc += 1
        old = p.arr
        if old.static:
            raise CMemoryError("realloc of the static buffer")
        if not old.live:
            raise CMemoryError("realloc of freed memory")
        if p.off:
            raise CMemoryError("realloc of an interior pointer")
        if self._fail():
            return None          # the old block stays valid, as in C
        a = Array("char", n, name="heap#%d" % self.n_alloc)
        self.heap.append(a)
        for i in range(min(n, old.n)):
            a.data[i] = old.data[i]
        old.live = False
        return Ptr(a, 0)

    def PyMem_Free(self, p):
        if p is None:
            return
        arr = p.arr if isinstance(p, Ptr) else p
        if arr.static:
            raise CMemoryError("free of the static buffer")
        if not arr.live:
            raise CMemoryError("double free of %s" % arr.name)
        if isinstance(p, Ptr) and p.off:
            raise CMemoryError("free of an interior pointer")
        arr.live = False

    def leaked(self):
        return [a.name for a in self.heap if a.live]

    def reset_heap(self):
        self.heap = []
        self.n_alloc = 0
        self.pending = None

    def PyErr_NoMemory(self):
        self.pending = MemoryError()

    def reraise(self):
        e = self.pending
        self.pending = None
        if e is None:
            raise SystemError("bare raise with no exception set (sx model)")
        raise e

    # ---- unicode API
    def PyUnicode_GET_LENGTH(self, s):
        return len(s)

    def PyUnicode_KIND(self, s):
        return 4

    def PyUnicode_DATA(self, s):
        return s

    def PyUnicode_READ(self, kind, data, i):
        if isinstance(i, SInt):
            raise Unsupported("PyUnicode_READ at a symbolic index")
        if not 0 <= i < len(data):
            raise CMemoryError("PyUnicode_READ out of bounds: index %d, length %d" % (i, len(data)))
        if isinstance(data, SStr):
            c = data.e[i]
            return c if isinstance(c, int) else SInt(c, *E.interval(c, (0, CP_MAX)))
        return ord(data[i])

    def _bytes(self, p, n):
        out = []
        for i in range(n):
            v = self.load(p, i)
            if isinstance(v, SInt):
                out.append(v.z & 0xFF if v.lo < 0 else v.z)
            else:
                out.append(v & 0xFF)
        return out

    def PyUnicode_DecodeASCII(self, p, n, errors):
        bs = self._bytes(p, n)
        if all(isinstance(b, int) for b in bs):
            return bytes(bs).decode("ascii")
        return models.bytes_decode(SBytes(bs), "ascii", "strict")

    def PyUnicode_DecodeUTF8Stateful(self, buf, n):
        bs = self._bytes(buf, n)
        if all(isinstance(b, int) for b in bs):
            import codecs
            dec = codecs.getincrementaldecoder("utf-8")()
            s = dec.decode(bytes(bs))
            return s, n - len(dec.getstate()[0])
        out, consumed = models.utf8_decode_stateful(bs)
        return SStr(out).simp(), consumed

    # ---- python-object helpers with C coercions made explicit
    def contains(self, container, item):
        if isinstance(item, SInt):
            item = SStr((item.z,))
        elif isinstance(item, int) and not isinstance(item, bool) and isinstance(container, (str, SStr)):
            item = chr(item)
        return sx_contains(container, item)

    def ord(self, x):
        if isinstance(x, (int, SInt)):
            return x
        return models.m_ord(x)

    def to_py(self, t, v):
        if t == "Py_UCS4":
            if isinstance(v, SInt):
                return SStr((v.z,))
            return chr(v)
        if t == "bint":
            return bool(v) if not isinstance(v, (SInt, SBool)) else v
        return v

    def from_py(self, t, v):
        if t == "Py_UCS4" and isinstance(v, (str, SStr)):
            return models.m_ord(v)
        if isinstance(v, bool):
            return int(v)
        return v
