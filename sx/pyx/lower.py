"""Front-end: lower yarl/_quoting_c.pyx to Python with explicit C semantics (DESIGN 2.5).

Structure comes from Cython's untyped parse tree; declared types, C function signatures, Py_UCS4<->object
coercions and character-literal values come from Cython's typed tree (pipeline cut after
AnalyseExpressionsTransform), joined by source position.  The output calls into sx.pyx.cshim (`_c`).
A construct this visitor does not know raises (AttributeError: no handler) => the check is inconclusive."""
import os, re, sys, io
from Cython.Compiler import Errors, Pipeline, PyrexTypes
from Cython.Compiler.Main import (Context, CompilationOptions, default_options, FileSourceDescriptor,
                                  CompilationSource, create_default_resultobj)
from Cython.Compiler.Visitor import TreeVisitor


def _ctx():
    return Context.from_options(CompilationOptions(default_options))


def parse_untyped(path, modname):
    ctx = _ctx(); sd = FileSourceDescriptor(path, path)
    scope = ctx.find_module(modname, pos=(sd, 1, 0), need_pxd=0)
    Errors.init_thread()
    return ctx.parse(sd, scope, pxd=0, full_module_name=modname)


def parse_typed(path, modname):
    opts = CompilationOptions(default_options); ctx = Context.from_options(opts)
    sd = FileSourceDescriptor(path, path)
    source = CompilationSource(sd, modname, os.getcwd())
    result = create_default_resultobj(source, opts)
    pipeline = Pipeline.create_pyx_pipeline(ctx, opts, result)
    cut = [i for i, p in enumerate(pipeline) if type(p).__name__ == "AnalyseExpressionsTransform"][0]
    Errors.init_thread()
    err, tree = Pipeline.run_pipeline(pipeline[:cut + 1], source)
    if err: raise RuntimeError(err)
    return tree


def tname(t):
    """canonical C type name used by the runtime"""
    if t is None: return None
    if t.is_pyobject: return "object"
    if t.is_ptr: return "ptr"
    if t.is_array: return "array"
    if t.is_struct: return "struct:" + t.name
    s = t.empty_declaration_code().strip()
    return s


def P(pos):
    return (pos[1], pos[2])


class Collect(TreeVisitor):
    def __init__(self):
        super().__init__()
        self.funcs = {}      # name -> (ret, [(argname, type)])
        self.locals = {}     # funcname -> {var: typename}
        self.coerce = {}     # (pos, nodeclass) -> ("to_py"/"from_py", ctype)
        self.charlit = {}    # pos -> int
        self.types = {}      # (pos, class) -> typename
        self.cur = None
    def visit_Node(self, node):
        cls = type(node).__name__
        if cls in ("CFuncDefNode", "DefNode"):
            prev = self.cur
            e = node.entry
            name = e.name
            self.cur = (getattr(self, "cls", None), name)
            if cls == "CFuncDefNode":
                ft = e.type
                self.funcs[self.cur] = (tname(ft.return_type), [(a.name, tname(a.type)) for a in ft.args])
            self.locals[self.cur] = {n: tname(en.type) for n, en in node.local_scope.entries.items()}
            self.locals[self.cur + ("raw",)] = {n: en.type for n, en in node.local_scope.entries.items()}
            self.visitchildren(node); self.cur = prev; return
        if cls == "CClassDefNode":
            prev = getattr(self, "cls", None); self.cls = node.class_name
            self.locals[("class", node.class_name)] = {n: en.type for n, en in node.scope.entries.items()}
            self.visitchildren(node); self.cls = prev; return
        if cls in ("CoerceToPyTypeNode", "CoerceFromPyTypeNode"):
            a = node.arg
            while type(a).__name__ in ("CloneNode", "ProxyNode", "CoerceToTempNode", "NoneCheckNode"):
                a = a.arg
            kind = "to_py" if cls == "CoerceToPyTypeNode" else "from_py"
            ct = tname(node.arg.type) if kind == "to_py" else tname(node.type)
            self.coerce[(P(a.pos), type(a).__name__)] = (kind, ct)
        if cls == "IntNode" and node.type is PyrexTypes.c_py_ucs4_type:
            self.charlit[P(node.pos)] = int(node.value, 0)
        if hasattr(node, "type") and hasattr(node, "pos") and node.type is not None and cls != "ModuleNode":
            try: self.types[(P(node.pos), cls)] = tname(node.type)
            except Exception: pass
        self.visitchildren(node)


BITS = {"uint8_t": (8, False), "uint64_t": (64, False), "Py_UCS4": (32, False), "int": (32, True), "long": (64, True),
        "Py_ssize_t": (64, True), "char": (8, True), "unsigned int": (32, False), "bint": (1, False)}


class Lower:
    def __init__(self, path, modname="yarl._quoting_c", buf_size=None, work=None):
        src = open(path).read()
        self.real_buf_size = None
        m = re.search(r"^DEF BUF_SIZE = (.+?)(#.*)?$", src, re.M)
        if m:
            self.real_buf_size = eval(m.group(1))
            if buf_size is not None:
                src = src[:m.start()] + f"DEF BUF_SIZE = {buf_size}" + src[m.end():]
        wd = os.path.join(work or "/var/tmp", "pyxwork-%s" % (buf_size if buf_size is not None else "real"))
        tmp = os.path.join(wd, os.path.basename(path))
        os.makedirs(wd, exist_ok=True)
        self.buf_size = buf_size if buf_size is not None else self.real_buf_size
        open(tmp, "w").write(src)
        self.tree = parse_untyped(tmp, modname)
        typed = parse_typed(tmp, modname)
        self.info = Collect(); self.info.visit(typed)
        self.module_vars = {}
        self.out = []
        self.ind = 0
        self.func = None
        self.cls = None
        self.structs = {}
        self.tmpn = 0
        self.finfo = {}      # top-level cdef function name -> dict(stores, calls, scalar)
        self.cur_info = None

    # ---- emit helpers
    def w(self, s): self.out.append("    " * self.ind + s)
    def block(self, node):
        self.ind += 1
        n0 = len(self.out)
        self.stat(node)
        if len(self.out) == n0: self.w("pass")
        self.ind -= 1

    def vtype(self, name):
        if self.func and name in self.info.locals.get(self.func, {}):
            return self.info.locals[self.func][name]
        return self.module_vars.get(name)

    def wrap(self, t, e):
        if t in BITS: return f"_c.wrap({t!r}, {e})"
        return e

    # ---- statements
    def stat(self, n):
        getattr(self, "s_" + type(n).__name__)(n)
    def s_StatListNode(self, n):
        for s in n.stats: self.stat(s)
    def s_FromCImportStatNode(self, n): pass
    def s_FromImportStatNode(self, n):
        names = ", ".join(name for name, _ in n.items)
        self.w(f"from {n.module.module_name.value} import {names}")
    def s_CStructOrUnionDefNode(self, n):
        fields = []
        for a in n.attributes:
            for d in a.declarators:
                nm = d.name if hasattr(d, "name") else d.base.name
                fields.append(nm)
        self.structs[n.name] = fields
        self.w(f"_c.defstruct({n.name!r}, {fields!r})")
    def decl_name(self, d):
        while not hasattr(d, "name") or type(d).__name__ != "CNameDeclaratorNode":
            d = d.base
        return d.name
    def s_CVarDefNode(self, n):
        bt = n.base_type
        btn = getattr(bt, "name", None)
        for d in n.declarators:
            name = self.decl_name(d)
            kind = type(d).__name__
            if self.func is None and self.cls is None:
                # module-level
                if kind == "CArrayDeclaratorNode":
                    dim = self.expr(d.dimension)
                    self.module_vars[name] = "array"
                    self.w(f"{name} = _c.array({btn!r}, {dim}, static=True, name={name!r})")
                else:
                    self.module_vars[name] = btn if btn in BITS else "object"
                    if getattr(d, "default", None) is not None:
                        self.w(f"{name} = {self.expr(d.default)}")
                continue
            if self.func is None and self.cls is not None:
                # cdef class attribute
                self.cls_attrs.append((name, btn, kind, d))
                continue
            t = self.vtype(name)
            dd = d
            while type(dd).__name__ != "CNameDeclaratorNode": dd = dd.base
            d_default = getattr(dd, "default", None)
            if kind == "CArrayDeclaratorNode":
                self.w(f"{name} = _c.array({btn!r}, {self.expr(d.dimension)}, name={name!r})")
            elif t and t.startswith("struct:"):
                self.w(f"{name} = _c.struct({t[7:]!r})")
            elif d_default is not None:
                self.w(f"{name} = {self.wrap(t, self.expr(d_default))}")
            else:
                self.w(f"{name} = _c.UNINIT")
    def s_CFuncDefNode(self, n):
        decl = n.declarator
        while type(decl).__name__ != "CFuncDeclaratorNode": decl = decl.base
        name = self.decl_name(decl)
        key = (self.cls, name)
        ret, args = self.info.funcs[key]
        prev = self.func; self.func = key
        prev_info = self.cur_info
        self.cur_info = dict(stores=False, calls=set(), scalar=(ret in BITS and all(t in BITS or t in ("ptr", "array") for _, t in args)))
        if self.cls is None:
            self.finfo[name] = self.cur_info
        self.w(f"def {name}({', '.join(a for a, _ in args)}):")
        self.ind += 1
        self.w(f"# C signature: {ret} ({', '.join(t for _, t in args)})")
        for a, t in args:
            if t in BITS: self.w(f"{a} = _c.wrap({t!r}, {a})")
        self.ret_type = ret
        self.stat(n.body)
        if ret == "void" or True:
            self.w("return None" if ret in ("void", "object") else f"return _c.UNINIT")
        self.ind -= 1
        self.func = prev
        self.cur_info = prev_info
        self.w("")
    def s_DefNode(self, n):
        key = (self.cls, n.name)
        prev = self.func; self.func = key
        args = []
        for a in n.args:
            nm = self.decl_name(a.declarator) if a.declarator is not None and self.decl_name(a.declarator) else a.base_type.name
            if a.default is not None: args.append((nm, self.expr(a.default), a.kw_only))
            else: args.append((nm, None, a.kw_only))
        sig = []; star = False
        for nm, dflt, kwo in args:
            if kwo and not star: sig.append("*"); star = True
            sig.append(nm if dflt is None else f"{nm}={dflt}")
        self.w(f"def {n.name}({', '.join(sig)}):")
        self.ind += 1
        lt = self.info.locals.get(key, {})
        for nm, _, _ in args:
            t = lt.get(nm)
            if t in BITS: self.w(f"{nm} = _c.wrap({t!r}, _c.from_py({t!r}, {nm}))")
        if n.name == "__init__" and self.cls_attrs:
            for (an, btn, kind, d) in self.cls_attrs:
                if kind == "CArrayDeclaratorNode":
                    self.w(f"self.{an} = _c.array({btn!r}, {self.expr(d.dimension)}, name={an!r})")
        self.ret_type = "object"
        self.stat(n.body)
        self.ind -= 1
        self.func = prev
        self.w("")
    def s_CClassDefNode(self, n):
        prev = self.cls; self.cls = n.class_name; self.cls_attrs = []
        self.w(f"class {n.class_name}:")
        self.ind += 1
        self.stat(n.body)
        self.ind -= 1
        self.cls = prev
        self.w("")
    def s_ExprStatNode(self, n):
        self.w(self.expr(n.expr))
    def target_type(self, lhs):
        c = type(lhs).__name__
        if c == "NameNode": return self.vtype(lhs.name)
        return self.info.types.get((P(lhs.pos), c))
    def s_SingleAssignmentNode(self, n):
        lhs, rhs = n.lhs, n.rhs
        t = self.target_type(lhs)
        c = type(lhs).__name__
        # out-parameter special case handled in call lowering
        if type(rhs).__name__ == "SimpleCallNode" and getattr(rhs.function, "name", None) == "PyUnicode_DecodeUTF8Stateful":
            a = rhs.args
            self.w(f"{self.expr(lhs)}, {self.expr(a[3].operand)} = _c.PyUnicode_DecodeUTF8Stateful({self.expr(a[0])}, {self.expr(a[1])})")
            return
        r = self.expr(rhs)
        if c in ("IndexNode", "AttributeNode") and self.cur_info is not None:
            self.cur_info["stores"] = True
        if c == "IndexNode":
            self.w(f"_c.store({self.expr(lhs.base)}, {self.expr(lhs.index)}, {r})")
        else:
            self.w(f"{self.expr(lhs)} = {self.wrap(t, r)}")
    def s_InPlaceAssignmentNode(self, n):
        lhs = n.lhs; t = self.target_type(lhs); c = type(lhs).__name__
        op = n.operator
        if c in ("IndexNode", "AttributeNode") and self.cur_info is not None:
            self.cur_info["stores"] = True
        if c == "IndexNode":
            b = self.expr(lhs.base); i = self.expr(lhs.index)
            self.w(f"_c.store({b}, {i}, _c.load({b}, {i}) {op} ({self.expr(n.rhs)}))")
        else:
            l = self.expr(lhs)
            self.w(f"{l} = {self.wrap(t, f'{l} {op} ({self.expr(n.rhs)})')}")
    def s_IfStatNode(self, n):
        for i, cl in enumerate(n.if_clauses):
            self.w(("if " if i == 0 else "elif ") + self.cond(cl.condition) + ":")
            self.block(cl.body)
        if n.else_clause is not None:
            self.w("else:"); self.block(n.else_clause)
    def s_WhileStatNode(self, n):
        self.w(f"while {self.cond(n.condition)}:"); self.block(n.body)
    def s_ForInStatNode(self, n):
        tgt = n.target; t = self.target_type(tgt)
        it = self.expr(n.iterator.sequence)
        self.tmpn += 1; tv = f"_it{self.tmpn}"
        self.w(f"for {tv} in {it}:")
        self.ind += 1
        if t in BITS:
            self.w(f"{self.expr(tgt)} = _c.wrap({t!r}, _c.from_py({t!r}, {tv}))")
        else:
            self.w(f"{self.expr(tgt)} = {tv}")
        self.stat(n.body)
        self.ind -= 1
    def s_ReturnStatNode(self, n):
        if n.value is None: self.w("return None"); return
        self.w(f"return {self.wrap(self.ret_type, self.expr(n.value))}")
    def s_ContinueStatNode(self, n): self.w("continue")
    def s_BreakStatNode(self, n): self.w("break")
    def s_RaiseStatNode(self, n):
        self.w(f"raise {self.expr(n.exc_type)}")
    def s_ReraiseStatNode(self, n): self.w("_c.reraise()")
    def s_AssertStatNode(self, n):
        self.w(f"assert {self.cond(n.condition)}")
    def s_TryExceptStatNode(self, n):
        self.w("try:"); self.block(n.body)
        for ec in n.except_clauses:
            pat = ", ".join(self.expr(p) for p in ec.pattern) if ec.pattern else ""
            self.w(f"except ({pat}):" if ec.pattern else "except:")
            self.block(ec.body)
    def s_TryFinallyStatNode(self, n):
        self.w("try:"); self.block(n.body); self.w("finally:"); self.block(n.finally_clause)
    def s_PassStatNode(self, n): self.w("pass")

    # ---- expressions
    def cond(self, n):
        return self.expr(n)
    def expr(self, n):
        c = type(n).__name__
        e = getattr(self, "e_" + c)(n)
        co = self.info.coerce.get((P(n.pos), c))
        if co is not None and c != "UnicodeNode":
            kind, ct = co
            if ct in BITS or ct == "object":
                e = f"_c.{kind}({ct!r}, {e})"
        return e
    def e_NameNode(self, n): return n.name
    def e_IntNode(self, n): return str(int(n.value.rstrip("UuLl"), 0)) if not n.value.startswith("0x") else str(int(n.value, 16))
    def e_BoolNode(self, n): return "True" if n.value else "False"
    def e_NoneNode(self, n): return "None"
    def e_NullNode(self, n): return "_c.NULL"
    def e_UnicodeNode(self, n):
        v = self.info.charlit.get(P(n.pos))
        if v is not None: return f"{v} # {str(n.value)!r}".split(" #")[0]
        return repr(str(n.value))
    e_StringNode = e_UnicodeNode
    def e_IdentifierStringNode(self, n): return repr(str(n.value))
    def e_AttributeNode(self, n): return f"{self.expr(n.obj)}.{n.attribute}"
    def e_IndexNode(self, n):
        bt = self.info.types.get((P(n.base.pos), type(n.base).__name__))
        if bt in ("array", "ptr"): return f"_c.load({self.expr(n.base)}, {self.expr(n.index)})"
        return f"{self.expr(n.base)}[{self.expr(n.index)}]"
    def e_SliceIndexNode(self, n):
        a = self.expr(n.start) if n.start is not None else ""
        b = self.expr(n.stop) if n.stop is not None else ""
        return f"{self.expr(n.base)}[{a}:{b}]"
    def e_ListNode(self, n): return "[" + ", ".join(self.expr(a) for a in n.args) + "]"
    def e_TupleNode(self, n): return "(" + ", ".join(self.expr(a) for a in n.args) + ("," if len(n.args) == 1 else "") + ")"
    def e_TypecastNode(self, n):
        t = self.info.types.get((P(n.pos), "TypecastNode"))
        inner = self.expr(n.operand)
        if t in BITS: return f"_c.wrap({t!r}, {inner})"
        return inner
    def e_AmpersandNode(self, n):
        op = n.operand
        if type(op).__name__ == "IndexNode":
            return f"_c.addr({self.expr(op.base)}, {self.expr(op.index)})"
        return f"_c.ref({self.expr(op)})"
    def binop(self, n, op):
        t = self.info.types.get((P(n.pos), type(n).__name__))
        e = f"({self.expr(n.operand1)} {op} {self.expr(n.operand2)})"
        return self.wrap(t, e) if t in BITS else e
    def e_AddNode(self, n): return self.binop(n, "+")
    def e_SubNode(self, n): return self.binop(n, "-")
    def e_MulNode(self, n): return self.binop(n, "*")
    def e_IntBinopNode(self, n): return self.binop(n, n.operator)
    def e_BoolBinopNode(self, n):
        return f"({self.expr(n.operand1)} {n.operator} {self.expr(n.operand2)})"
    def e_NotNode(self, n): return f"(not {self.expr(n.operand)})"
    def e_UnaryMinusNode(self, n): return f"(-{self.expr(n.operand)})"
    def e_SizeofVarNode(self, n):
        return f"_c.sizeof({self.expr(n.operand)})"
    def cmp(self, a, op, b):
        if op in ("in", "not_in"):
            e = f"_c.contains({b}, {a})"
            return e if op == "in" else f"(not {e})"
        op = {"is_not": "is not"}.get(op, op)
        return f"({a} {op} {b})"
    def e_PrimaryCmpNode(self, n):
        parts = []
        a = self.expr(n.operand1); b = self.expr(n.operand2)
        parts.append(self.cmp(a, n.operator, b))
        cas = n.cascade; prev = b
        while cas is not None:
            nb = self.expr(cas.operand2)
            parts.append(self.cmp(prev, cas.operator, nb)); prev = nb; cas = cas.cascade
        return "(" + " and ".join(parts) + ")" if len(parts) > 1 else parts[0]
    def e_SimpleCallNode(self, n):
        f = n.function
        fname = f.name if type(f).__name__ == "NameNode" else None
        if self.cur_info is not None:
            self.cur_info["calls"].add(fname if fname is not None else "<expr>")
        args = list(n.args)
        if fname == "PyUnicode_DecodeUTF8Stateful":
            # out-param: (buffer, buflen, NULL, &consumed) ; result assigned by caller; consumed set via helper
            outp = args[3].operand
            return f"_c.decode_utf8_stateful({self.expr(args[0])}, {self.expr(args[1])}, lambda v: _c.setlocal(locals(), v))".replace("lambda v: _c.setlocal(locals(), v)", f"_c.OutParam()") if False else \
                   f"_c.PyUnicode_DecodeUTF8Stateful({self.expr(args[0])}, {self.expr(args[1])}, _out)"
        a = [self.expr(x) for x in args]
        # implicit conversion of C args to parameter types
        key = None
        if fname is not None and (None, fname) in self.info.funcs: key = (None, fname)
        if type(f).__name__ == "AttributeNode" and type(f.obj).__name__ == "NameNode" and f.obj.name == "self" and (self.cls, f.attribute) in self.info.funcs:
            key = (self.cls, f.attribute)
            ret, params = self.info.funcs[key]
            a = [self.wrap(t, x) for (x, (_, t)) in zip(a, params[1:])]
            return f"{self.cls}.{f.attribute}(self, {', '.join(a)})"
        if key is not None:
            ret, params = self.info.funcs[key]
            a = [self.wrap(t, x) for (x, (_, t)) in zip(a, params)]
        if fname == "ord": return f"_c.ord({a[0]})"
        if fname in ("PyMem_Malloc", "PyMem_Realloc", "PyMem_Free", "memcpy", "memset", "PyErr_NoMemory", "PyUnicode_READ",
                     "PyUnicode_GET_LENGTH", "PyUnicode_KIND", "PyUnicode_DATA", "PyUnicode_DecodeASCII"):
            return f"_c.{fname}({', '.join(a)})"
        return f"{self.expr(f)}({', '.join(a)})"
    def e_GeneralCallNode(self, n):
        pos = [self.expr(x) for x in n.positional_args.args]
        kws = []
        if n.keyword_args is not None:
            for it in n.keyword_args.key_value_pairs:
                kws.append(f"{it.key.value}={self.expr(it.value)}")
        return f"{self.expr(n.function)}({', '.join(pos + kws)})"

    def lower(self):
        self.w("# generated from _quoting_c.pyx -- do not edit")
        self.w("from sx.pyx.cshim import C as _C")
        self.w("_c = _C()")
        self.w("_SX_BUF_SIZE = %r" % (self.buf_size,))
        self.stat(self.tree.body)
        # pure scalar helpers (no stores, calls only to other pure helpers): merged instead of forked (DESIGN 2.3)
        pure = {k for k, v in self.finfo.items() if v["scalar"] and not v["stores"]}
        changed = True
        while changed:
            changed = False
            for k in list(pure):
                if not all(c in pure for c in self.finfo[k]["calls"]):
                    pure.discard(k)
                    changed = True
        for k in sorted(pure):
            self.w(f"{k}._sx_pure = True")
        self.pure = sorted(pure)
        return "\n".join(self.out) + "\n"


def lower_file(path, work=None, buf_size=None):
    return Lower(path, buf_size=buf_size, work=work).lower()


if __name__ == "__main__":
    print(lower_file(sys.argv[1], buf_size=int(sys.argv[2]) if len(sys.argv) > 2 else None))
