"""Call dispatch for instrumented code and models of builtins / stdlib on symbolic values.

Every model here is part of the trusted base of a claim and is validated by
concordance (DESIGN 2.7): each explored path's witness is re-run on the real,
un-instrumented code and must produce the same observations.
"""
import codecs
import functools
import re
import string
import types

import z3

from .core import (E, W, CP_MAX, SStr, SInt, SBool, SBytes, SByteArray, SSeq, HashKey, Unsupported,
                   PathAbort, Inconclusive, bv, ez, zi, zb, eq_elem, mk_bool, truth, not_, is_sym, deep_sym, contains,
                   in_ranges, unicode_ranges, join_str, all_of, any_of, sym_eq, simp_elem)

_REAL_UTF8_INCDEC = codecs.getincrementaldecoder("utf-8")


# ------------------------------------------------------------------ UTF-8
def _utf8_encode_cp(z, errors):
    """UTF-8 bytes (list of elems) of one code point; forks on the length class."""
    if isinstance(z, int):
        try:
            return list(chr(z).encode("utf-8", errors))
        except UnicodeEncodeError:
            raise
    if truth(mk_bool(z < 0x80)):
        return [z]
    if truth(mk_bool(z < 0x800)):
        return [0xC0 | z3.LShR(z, 6), 0x80 | (z & 0x3F)]
    if truth(mk_bool(z3.And(z >= 0xD800, z <= 0xDFFF))):
        if errors == "ignore":
            return []
        if errors == "replace":
            return [0x3F]
        if errors == "strict":
            raise UnicodeEncodeError("utf-8", "\ud800", 0, 1, "surrogates not allowed")
        if errors == "surrogatepass":
            return [0xE0 | z3.LShR(z, 12), 0x80 | (z3.LShR(z, 6) & 0x3F), 0x80 | (z & 0x3F)]
        raise Unsupported("utf-8 encode errors=%r" % errors)
    if truth(mk_bool(z < 0x10000)):
        return [0xE0 | z3.LShR(z, 12), 0x80 | (z3.LShR(z, 6) & 0x3F), 0x80 | (z & 0x3F)]
    return [0xF0 | z3.LShR(z, 18), 0x80 | (z3.LShR(z, 12) & 0x3F), 0x80 | (z3.LShR(z, 6) & 0x3F), 0x80 | (z & 0x3F)]


def _norm_enc(enc):
    return enc.replace("-", "").replace("_", "").lower()


def str_encode(s, enc="utf-8", errors="strict"):
    n = _norm_enc(enc)
    if n == "ascii":
        for c in s.e:
            if not truth(mk_bool(ez(c) < 128)):
                if errors == "strict":
                    raise UnicodeEncodeError("ascii", "\x80", 0, 1, "ordinal not in range(128)")
                raise Unsupported("ascii encode errors=%r" % errors)
        return SBytes(s.e)
    if n in ("utf8",):
        out = []
        for c in s.e:
            out.extend(simp_elem(b) for b in _utf8_encode_cp(c, errors))
        return SBytes(out)
    raise Unsupported("encode(%r) of symbolic text" % enc)


def utf8_prefix(bs):
    """Classify the byte sequence bs (1..4 elems) as the start of UTF-8 text.

    returns ('ok', code_point_term, length) | ('more',) | ('bad',)  -- forks."""
    b0 = ez(bs[0])
    t = lambda c: truth(mk_bool(c))
    if t(b0 < 0x80):
        return ("ok", b0, 1)
    if t(b0 < 0xC2):
        return ("bad",)
    if t(b0 < 0xE0):
        need, lo, hi = 1, 0x80, 0xBF
    elif t(b0 == 0xE0):
        need, lo, hi = 2, 0xA0, 0xBF
    elif t(b0 < 0xED):
        need, lo, hi = 2, 0x80, 0xBF
    elif t(b0 == 0xED):
        need, lo, hi = 2, 0x80, 0x9F
    elif t(b0 < 0xF0):
        need, lo, hi = 2, 0x80, 0xBF
    elif t(b0 == 0xF0):
        need, lo, hi = 3, 0x90, 0xBF
    elif t(b0 < 0xF4):
        need, lo, hi = 3, 0x80, 0xBF
    elif t(b0 == 0xF4):
        need, lo, hi = 3, 0x80, 0x8F
    else:
        return ("bad",)
    for k in range(1, need + 1):
        if k >= len(bs):
            return ("more",)
        b = ez(bs[k])
        l, h = (lo, hi) if k == 1 else (0x80, 0xBF)
        if not t(z3.And(b >= l, b <= h)):
            return ("bad",)
    if need == 1:
        cp = ((b0 & 0x1F) << 6) | (ez(bs[1]) & 0x3F)
    elif need == 2:
        cp = ((b0 & 0x0F) << 12) | ((ez(bs[1]) & 0x3F) << 6) | (ez(bs[2]) & 0x3F)
    else:
        cp = ((b0 & 0x07) << 18) | ((ez(bs[1]) & 0x3F) << 12) | ((ez(bs[2]) & 0x3F) << 6) | (ez(bs[3]) & 0x3F)
    return ("ok", cp, need + 1)


def utf8_decode_stateful(bs):
    """decode as many complete sequences as possible: (SStr elems, consumed); raises UnicodeDecodeError"""
    out = []
    pos = 0
    while pos < len(bs):
        r = utf8_prefix(bs[pos:pos + 4])
        if r[0] == "ok":
            out.append(simp_elem(E.bind(r[1]) if not isinstance(r[1], int) else r[1]))
            pos += r[2]
        elif r[0] == "more":
            break
        else:
            raise UnicodeDecodeError("utf-8", b"\xff", 0, 1, "invalid byte (sx model)")
    return out, pos


def bytes_decode(b, enc="utf-8", errors="strict"):
    n = _norm_enc(enc)
    if n == "ascii":
        for c in b.e:
            if not truth(mk_bool(ez(c) < 128)):
                if errors == "strict":
                    raise UnicodeDecodeError("ascii", b"\x80", 0, 1, "ordinal not in range(128)")
                raise Unsupported("ascii decode errors=%r" % errors)
        return SStr(b.e).simp()
    if n == "utf8" and errors == "strict":
        out, pos = utf8_decode_stateful(list(b.e))
        if pos != len(b.e):
            raise UnicodeDecodeError("utf-8", b"\xff", 0, 1, "unexpected end of data (sx model)")
        return SStr(out).simp()
    raise Unsupported("decode(%r, %r) of symbolic bytes" % (enc, errors))


class SymUtf8Decoder:
    """model of codecs.getincrementaldecoder('utf-8')() (encodings.utf_8.IncrementalDecoder)"""

    def __init__(self, errors="strict"):
        if errors != "strict":
            raise Unsupported("incremental decoder errors=%r" % errors)
        self.buffer = SBytes(())

    def decode(self, input, final=False):
        data = list(self.buffer.e) + (list(input.e) if isinstance(input, SBytes) else list(input))
        out, consumed = utf8_decode_stateful(data)   # on error the buffer is left unchanged, as in codecs
        if final and consumed != len(data):
            raise UnicodeDecodeError("utf-8", b"\xff", 0, 1, "unexpected end of data (sx model)")
        self.buffer = SBytes(data[consumed:])
        return SStr(out).simp()

    def reset(self):
        self.buffer = SBytes(())

    def getstate(self):
        return (self.buffer, 0)


# ------------------------------------------------------------------ ints <-> text
_INT_EXTRA = None


def _int_extra_ranges():
    """characters Python's int() tolerates beyond ASCII digits (sign, underscore, whitespace, Unicode decimals)"""
    global _INT_EXTRA
    if _INT_EXTRA is None:
        r = [(0x2B, 0x2B), (0x2D, 0x2D), (0x5F, 0x5F)] + list(unicode_ranges("isspace"))
        _INT_EXTRA = sorted(r)
    return _INT_EXTRA


class ExcludedInput(PathAbort):
    """a stated exclusion of the claim was hit (counted)"""

    def __init__(self, label):
        PathAbort.__init__(self, "assume")
        self.label = label


def exclude(label):
    E.assume_counts[label] = E.assume_counts.get(label, 0) + 1
    raise ExcludedInput(label)


def _unicode_digit_value(z):
    """(is_decimal_digit, value 0-9) of a code point term: Unicode decimal digits come in runs of ten consecutive
    code points starting at a zero digit (checked against the running interpreter when the table is built)"""
    global _DEC_RUNS
    if _DEC_RUNS is None:
        runs = []
        for a, b in unicode_ranges("isdecimal"):
            assert (b - a + 1) % 10 == 0 and int(chr(a)) == 0 and int(chr(b)) == 9, "unexpected decimal-digit block"
            runs.append((a, b))
        _DEC_RUNS = runs
    isd = E.bind_pred(z, "isdecimal", _DEC_RUNS)
    val = bv(0)
    for a, b in reversed(_DEC_RUNS):
        val = z3.If(z3.And(z >= a, z <= b), z3.URem(z - a, bv(10)), val)
    return isd, val


_DEC_RUNS = None


def m_int(x=0, base=10):
    if isinstance(x, SInt):
        return x
    if isinstance(x, SBool):
        return SInt(z3.If(x.z, bv(1), bv(0)), 0, 1)
    if isinstance(x, SStr):
        if not x.e:
            raise ValueError("invalid literal for int()")
        if base not in (10, 16):
            raise Unsupported("int(text, base=%r)" % base)
        val = bv(0)
        mag = 1
        for c in x.e:
            z = ez(c)
            isd = z3.And(z >= 48, z <= 57)
            isu = z3.And(z >= 65, z <= 70)
            isl = z3.And(z >= 97, z <= 102)
            ascii_ok = z3.Or(isd, isu, isl) if base == 16 else isd
            if truth(mk_bool(ascii_ok)):
                d = z3.If(isd, z - 48, z3.If(isu, z - 55, z - 87)) if base == 16 else z - 48
            else:
                # Python's int() also accepts any Unicode decimal digit ...
                uni, uval = _unicode_digit_value(z)
                if truth(mk_bool(z3.And(uni, z > 127))):
                    d = E.bind(uval, 0, 9)
                else:
                    # ... and a sign, underscores between digits and surrounding whitespace: stated exclusion
                    if truth(mk_bool(in_ranges(z, _int_extra_ranges()))):
                        exclude("int(text) with sign, underscore or whitespace")
                    raise ValueError("invalid literal for int() with base %d" % base)
            val = val * base + d
            mag *= base
        return SInt(E.bind(val, 0, mag - 1), 0, mag - 1)
    if isinstance(x, SBytes):
        raise Unsupported("int(bytes)")
    if base != 10:
        return int(x, base)
    return int(x)


def int_to_sstr(v):
    """decimal rendering of a symbolic int: forks on sign and digit count, digits are fresh constrained variables"""
    if isinstance(v, SBool):
        raise Unsupported("str(symbolic bool)")
    if not isinstance(v, SInt):
        return str(v)
    memo = E.pred_memo.get((v.z.get_id(), "str(int)"))
    if memo is not None:
        return memo[0]         # same integer term rendered before on this path: same digit variables
    r = _int_to_sstr(v)
    E.pred_memo[(v.z.get_id(), "str(int)")] = (r, v.z)
    return r


def _int_to_sstr(v):
    neg = truth(v < 0)
    a = -v if neg else v
    nd = 1
    while 10 ** nd <= a.mag and not truth(a < 10 ** nd):
        nd += 1
    digits = []
    tot = bv(0)
    for i in range(nd):
        E.nfresh += 1
        d = z3.BitVec("_d%d" % E.nfresh, W)
        E.solver.add(d >= 0, d <= 9)
        digits.append(d)
        tot = tot + d * (10 ** (nd - 1 - i))
    E.add(tot == a.z)
    chars = [d + 48 for d in digits]
    if neg:
        chars.insert(0, 45)
    return SStr(chars)


def _hexdigit_upper(z4):
    return z3.If(z4 < 10, z4 + 48, z4 + 55)


def _hexdigit_lower(z4):
    return z3.If(z4 < 10, z4 + 48, z4 + 87)


def int_to_hex(v, ndigits=None, upper=False):
    """hex digits of a non-negative symbolic int; forks on digit count unless ndigits given (zero padded, value must fit)"""
    if not isinstance(v, SInt):
        v = SInt(bv(int(v)), int(v), int(v))
    if truth(v < 0):
        raise Unsupported("hex of negative symbolic int")
    if ndigits is None:
        nd = 1
        while 16 ** nd <= v.mag and not truth(v < 16 ** nd):
            nd += 1
    else:
        nd = ndigits
        while not truth(v < 16 ** nd):
            nd += 1
    f = _hexdigit_upper if upper else _hexdigit_lower
    return [E.bind(f(z3.LShR(v.z, 4 * (nd - 1 - i)) & 15), 48, 70 if upper else 102) for i in range(nd)]


def m_hex(v):
    if isinstance(v, SInt):
        return SStr([48, 120] + int_to_hex(v))
    return hex(v)


def m_chr(x):
    if isinstance(x, SInt):
        if not truth(mk_bool(z3.And(x.z >= 0, x.z <= CP_MAX))):
            raise ValueError("chr() arg not in range(0x110000)")
        return SStr((x.z,))
    return chr(x)


def m_ord(x):
    if isinstance(x, SStr):
        if len(x.e) != 1:
            raise TypeError("ord() expected a character, but string of length %d found" % len(x.e))
        c = x.e[0]
        return c if isinstance(c, int) else SInt(c, *E.interval(c, (0, CP_MAX)))
    if isinstance(x, SBytes):
        if len(x.e) != 1:
            raise TypeError("ord() expected a character")
        c = x.e[0]
        return c if isinstance(c, int) else SInt(c, *E.interval(c, (0, 255)))
    return ord(x)


def _sym_type(x):
    if isinstance(x, SStr):
        return str
    if isinstance(x, SInt):
        return int
    if isinstance(x, SBool):
        return bool
    if isinstance(x, SByteArray):
        return bytearray
    if isinstance(x, SBytes):
        return bytes
    return None


def m_type(*a):
    if len(a) == 1:
        t = _sym_type(a[0])
        return t if t is not None else type(a[0])
    return type(*a)


def m_isinstance(x, t):
    st = _sym_type(x)
    if st is None:
        return isinstance(x, t)
    if isinstance(t, tuple):
        return any(m_isinstance(x, u) for u in t)
    try:
        return issubclass(st, t)
    except TypeError:
        return isinstance(x, t)


def m_str(x="", *a):
    if a:
        raise Unsupported("str(bytes, encoding)")
    if isinstance(x, SStr):
        return x
    if isinstance(x, SInt):
        return int_to_sstr(x)
    if isinstance(x, (SBool, SBytes)):
        raise Unsupported("str(%s)" % type(x).__name__)
    d = _dunder(x, "__str__")
    if d is not None:
        r = d(x)
        if not isinstance(r, (str, SStr)):
            raise TypeError("__str__ returned non-string (type %s)" % type(r).__name__)
        return r
    return str(x)


def _dunder(x, name):
    """the instrumented Python-level special method of x's class, if any"""
    fn = getattr(type(x), name, None)
    if isinstance(fn, types.FunctionType) and INSTR_TAG in fn.__globals__:
        return fn
    return None


def m_repr(x):
    d = _dunder(x, "__repr__")
    if d is not None:
        return d(x)
    if is_sym(x):
        return "<sym>"
    if deep_sym(x):
        return "<sym-container>"
    return repr(x)


def m_bytes(x=b"", *a):
    d = _dunder(x, "__bytes__")
    if d is not None:
        return d(x)
    if isinstance(x, SSeq):
        return SBytes(x.e)
    if isinstance(x, (list, tuple)) and any(isinstance(y, SInt) for y in x):
        out = []
        for y in x:
            if isinstance(y, SInt):
                if not truth(mk_bool(z3.And(y.z >= 0, y.z <= 255))):
                    raise ValueError("bytes must be in range(0, 256)")
                out.append(y.z)
            else:
                out.append(int(y))
        return SBytes(out)
    return bytes(x, *a)


def m_bytearray(*a):
    if not a:
        return SByteArray()
    return SByteArray(a[0] if isinstance(a[0], (SSeq, int)) else list(a[0]))


def m_hash(x):
    d = _dunder(x, "__hash__")
    if d is not None:
        return d(x)
    if isinstance(x, (str, SStr, tuple, SInt)):
        return HashKey(x)        # also for concrete values: keys must be comparable with keys of symbolic values
    return hash(x)


def m_bool(x=False):
    d = _dunder(x, "__bool__")
    if d is not None:
        return truth(d(x))
    return truth(x) if isinstance(x, SBool) else bool(x)


def m_format(v, spec=""):
    return fstring((v, spec, -1))


def m_min(*a, **k):
    return min(*a, **k)


BUILTIN_MODELS = {
    ord: m_ord, chr: m_chr, isinstance: m_isinstance, type: m_type, int: m_int, str: m_str, repr: m_repr,
    bytearray: m_bytearray, bytes: m_bytes, hash: m_hash, hex: m_hex, bool: m_bool, format: m_format,
}

# builtins / types that never inspect their (possibly symbolic) element arguments
SAFE_NATIVE = {len, tuple, list, reversed, enumerate, zip, iter, next, range, getattr, setattr, hasattr, id, min, max,
               sorted, any, all, sum, map, filter, print, issubclass, callable, dict, slice, object, super, vars,
               types.SimpleNamespace}

SAFE_LIST_METHODS = {"append", "extend", "insert", "pop", "reverse", "clear", "copy", "__len__", "__iter__"}
SAFE_DICT_METHODS = {"items", "keys", "values", "copy", "clear", "update", "pop", "setdefault"}


# ------------------------------------------------------------------ formatting
def fstring(*parts):
    e = []
    sym = False
    for p in parts:
        if isinstance(p, tuple):
            v, spec, conv = p
            if conv != -1:
                if conv == 114:
                    v = m_repr(v)
                elif conv == 115:
                    v = m_str(v)
                else:
                    v = ascii(v) if not is_sym(v) else "<sym>"
            if is_sym(spec):
                raise Unsupported("symbolic format spec")
            if isinstance(v, SInt):
                if spec == "":
                    e += list(int_to_sstr(v).e)
                elif spec in ("02X", "02x", "X", "x"):
                    e += int_to_hex(v, 2 if spec.startswith("02") else None, upper=spec.endswith("X"))
                elif spec == "d":
                    e += list(int_to_sstr(v).e)
                else:
                    raise Unsupported("format spec %r for symbolic int" % spec)
                sym = True
                continue
            if isinstance(v, SStr):
                if spec not in ("", "s"):
                    raise Unsupported("format spec %r for symbolic str" % spec)
                e += list(v.e)
                sym = True
                continue
            if isinstance(v, (SBool, SBytes)):
                raise Unsupported("format of %s" % type(v).__name__)
            p = format(v, spec)
        e += [ord(c) for c in p]
    return SStr(e).simp()


def str_format(fmt, args, kwargs):
    if isinstance(fmt, SStr):
        if not fmt.concrete():
            raise Unsupported("symbolic format string")
        fmt = fmt.native()
    parts = []
    auto = 0
    for lit, field, spec, conv in string.Formatter().parse(fmt):
        if lit:
            parts.append(lit)
        if field is None:
            continue
        if field == "":
            v = args[auto]
            auto += 1
        elif field.isdigit():
            v = args[int(field)]
        elif field.isidentifier():
            v = kwargs[field]
        else:
            raise Unsupported("format field %r" % field)
        parts.append((v, spec or "", ord(conv) if conv else -1))
    return fstring(*parts)


def str_percent(fmt, args):
    raise Unsupported("%-formatting with symbolic operands")


# ------------------------------------------------------------------ regular expressions
class SMatch:
    def __init__(self, s, start, end):
        self._s, self._start, self._end = s, start, end

    def group(self, g=0):
        if g != 0:
            raise Unsupported("match.group(%r)" % g)
        return self._s[self._start:self._end]

    def start(self, g=0):
        return self._start

    def end(self, g=0):
        return self._end

    def span(self, g=0):
        return (self._start, self._end)

    def __bool__(self):
        return True


@functools.lru_cache(None)
def _parse_re(pattern, flags):
    import re._parser as sp
    import re._constants as sc
    return sp.parse(pattern, flags), sc


def _cat_ranges(cat, is_bytes):
    name = str(cat)
    neg = "NOT_" in name
    if "DIGIT" in name:
        r = [(48, 57)] if is_bytes else unicode_ranges("isdecimal")
    elif "SPACE" in name:
        r = [(9, 13), (32, 32)] if is_bytes else unicode_ranges("isspace")
    elif "WORD" in name:
        r = [(48, 57), (65, 90), (95, 95), (97, 122)] if is_bytes else sorted(unicode_ranges("isalnum") + [(95, 95)])
    else:
        raise Unsupported("regex category %s" % name)
    return r, neg


def _in_cond(z, av, is_bytes):
    negate = False
    alts = []
    for op, a in av:
        n = str(op)
        if n == "NEGATE":
            negate = True
        elif n == "LITERAL":
            alts.append(z == a)
        elif n == "RANGE":
            alts.append(z3.And(z >= a[0], z <= a[1]))
        elif n == "CATEGORY":
            r, neg = _cat_ranges(a, is_bytes)
            c = in_ranges(z, r)
            alts.append(z3.Not(c) if neg else c)
        else:
            raise Unsupported("regex set item %s" % n)
    c = z3.Or(alts) if alts else z3.BoolVal(False)
    return z3.Not(c) if negate else c


def regex_run(pattern, flags, s, mode):
    """mode: 'match' | 'fullmatch' | 'search'.  Backtracking matcher over sre's parse tree; every
    character test is a solver-decided branch."""
    is_bytes = isinstance(pattern, bytes)
    tree, sc = _parse_re(pattern, flags & (re.VERBOSE | re.DOTALL | re.MULTILINE | re.ASCII))
    if flags & (re.IGNORECASE | re.LOCALE):
        raise Unsupported("regex flag IGNORECASE/LOCALE")
    dotall = bool(flags & re.DOTALL)
    if isinstance(s, SSeq):
        els = list(s.e)
    elif isinstance(s, str):
        els = [ord(c) for c in s]
    else:
        els = list(s)
    n = len(els)
    MAXREPEAT = sc.MAXREPEAT

    def t(c):
        return truth(mk_bool(c))

    def seq(items, i, pos, cont):
        if i == len(items):
            return cont(pos)
        op, av = items[i]
        name = str(op)
        nxt = lambda p: seq(items, i + 1, p, cont)
        if name == "LITERAL":
            if pos < n and t(ez(els[pos]) == av):
                return nxt(pos + 1)
            return None
        if name == "NOT_LITERAL":
            if pos < n and t(ez(els[pos]) != av):
                return nxt(pos + 1)
            return None
        if name == "ANY":
            if pos < n and (dotall or t(ez(els[pos]) != 10)):
                return nxt(pos + 1)
            return None
        if name == "IN":
            if pos < n and t(_in_cond(ez(els[pos]), av, is_bytes)):
                return nxt(pos + 1)
            return None
        if name in ("MAX_REPEAT", "MIN_REPEAT", "POSSESSIVE_REPEAT"):
            lo, hi, sub = av
            sub = list(sub)
            greedy = name != "MIN_REPEAT"
            if name == "POSSESSIVE_REPEAT":
                raise Unsupported("possessive repeat")

            def rep(cnt, p):
                def more():
                    if hi is MAXREPEAT or cnt < hi:
                        return seq(sub, 0, p, lambda q: rep(cnt + 1, q) if (q > p or cnt < lo) else None)
                    return None
                if greedy:
                    r = more()
                    if r is not None:
                        return r
                    return nxt(p) if cnt >= lo else None
                if cnt >= lo:
                    r = nxt(p)
                    if r is not None:
                        return r
                return more()
            return rep(0, pos)
        if name == "BRANCH":
            for alt in av[1]:
                r = seq(list(alt), 0, pos, nxt)
                if r is not None:
                    return r
            return None
        if name == "SUBPATTERN":
            return seq(list(av[3]), 0, pos, nxt)
        if name == "AT":
            a = str(av)
            if a in ("AT_BEGINNING_STRING", "AT_BEGINNING"):
                ok = pos == 0
            elif a == "AT_END_STRING":
                ok = pos == n
            elif a == "AT_END":
                ok = pos == n or (pos == n - 1 and t(ez(els[pos]) == 10))
            else:
                raise Unsupported("regex anchor %s" % a)
            return nxt(pos) if ok else None
        if name in ("ASSERT", "ASSERT_NOT"):
            direction, sub = av
            if direction != 1:
                raise Unsupported("lookbehind")
            r = seq(list(sub), 0, pos, lambda q: q)
            if (r is not None) == (name == "ASSERT"):
                return nxt(pos)
            return None
        raise Unsupported("regex op %s" % name)

    items = list(tree)
    final = (lambda p: p if p == n else None) if mode == "fullmatch" else (lambda p: p)
    starts = range(0, n + 1) if mode == "search" else (0,)
    for st in starts:
        r = seq(items, 0, st, final)
        if r is not None:
            return SMatch(s, st, r)
    return None


# ------------------------------------------------------------------ native str receivers
def _native_str_method(recv, name, args, kw):
    if name == "join":
        return join_str(recv, list(args[0]))
    if name == "format":
        return str_format(recv, args, kw)
    if name in ("__contains__",):
        return contains(recv, args[0])
    return getattr(SStr.of(recv), name)(*args, **kw)


def dict_get(d, key, default=None):
    for k in d:
        if isinstance(k, str) and isinstance(key, (str, SStr)):
            if truth(SStr.of(k) == key):
                return d[k]
        elif isinstance(key, SInt) and isinstance(k, int):
            if truth(key == k):
                return d[k]
    return default


EXTRA_MODELS = {}     # filled by models_ext (urllib.parse, multidict)
INSTR_TAG = "_sx_rt_"
PURE_ATTR = "_sx_pure"


def call(f, *args, **kw):
    if not E.active:
        return f(*args, **kw)
    if f.__class__ is functools._lru_cache_wrapper:
        hook = LRU_HOOK[0]
        if hook is not None:
            return hook(f, args, kw)
        f = f.__wrapped__
    if getattr(f, PURE_ATTR, False) and not E.in_merge and (deep_sym(args)):
        return E.merge_call(f, args, kw)
    tf = type(f)
    if tf is types.FunctionType:
        if INSTR_TAG in f.__globals__ or f.__module__.startswith("sx."):
            return f(*args, **kw)
        m = EXTRA_MODELS.get(f)
        if m is not None:
            return m(*args, **kw)
        if _anysym(args, kw):
            raise Unsupported("un-instrumented function %s.%s called with symbolic arguments" % (f.__module__, f.__qualname__))
        return f(*args, **kw)
    if tf is types.MethodType:
        if isinstance(f.__self__, _REAL_UTF8_INCDEC):
            # a real decoder object created while the engine was off (import / __init__ time) and shared between calls
            return getattr(_shadow(f.__self__), f.__name__)(*args, **kw)
        fn = f.__func__
        if isinstance(fn, types.FunctionType) and (INSTR_TAG in fn.__globals__ or fn.__module__.startswith("sx.")):
            return f(*args, **kw)
        m = EXTRA_MODELS.get(fn)
        if m is not None:
            return m(f.__self__, *args, **kw)
        if _anysym(args, kw) or is_sym(f.__self__):
            raise Unsupported("un-instrumented method %r called with symbolic arguments" % (f,))
        return f(*args, **kw)
    if f is _REAL_UTF8_INCDEC:
        return SymUtf8Decoder(*args, **kw)

    if _dunder(f, "__call__") is not None:
        return f(*args, **kw)
    m = BUILTIN_MODELS.get(f) if tf in (type, types.BuiltinFunctionType) else None
    if m is not None:
        return m(*args, **kw)
    m = EXTRA_MODELS.get(f) if _hashable(f) else None
    if m is not None:
        return m(*args, **kw)
    recv = getattr(f, "__self__", None)
    if recv is not None and not isinstance(recv, types.ModuleType):
        name = getattr(f, "__name__", "")
        if name == "__new__" and recv in (tuple, object, list, dict):
            return f(*args, **kw)        # container construction does not inspect its elements
        if isinstance(recv, re.Pattern):
            if name in ("match", "fullmatch", "search") and _anysym(args, kw):
                return regex_run(recv.pattern, recv.flags, args[0], name)
            if _anysym(args, kw):
                raise Unsupported("re.Pattern.%s on symbolic text" % name)
            return f(*args, **kw)
        sym = _anysym(args, kw)
        if isinstance(recv, str):
            if name == "join" and len(args) == 1 and not isinstance(args[0], (str, list, tuple)):
                args = (list(args[0]),)      # a generator may yield symbolic strings
                sym = _anysym(args, kw)
            if sym:
                return _native_str_method(recv, name, args, kw)
            return f(*args, **kw)
        if isinstance(recv, (bytes, bytearray)):
            if sym:
                return getattr(SBytes(tuple(recv)), name)(*args, **kw)
            return f(*args, **kw)
        if isinstance(recv, list):
            if not sym or name in SAFE_LIST_METHODS:
                return f(*args, **kw)
            raise Unsupported("list.%s with symbolic argument" % name)
        if isinstance(recv, dict):
            if name == "get" and sym:
                return dict_get(recv, *args, **kw)
            if not sym or name in SAFE_DICT_METHODS:
                return f(*args, **kw)
            raise Unsupported("dict.%s with symbolic argument" % name)
        if isinstance(recv, (set, frozenset)) and sym:
            if name == "issuperset" and len(args) == 1 and isinstance(args[0], (str, SStr)):
                return truth(all_of([contains(recv, c) for c in SStr.of(args[0])]))
            if name == "__contains__":
                return truth(contains(recv, args[0]))
            raise Unsupported("%s.%s with symbolic argument" % (type(recv).__name__, name))
        tm = EXTRA_MODELS.get((type(recv), name))
        if tm is not None:
            return tm(recv, *args, **kw)
        if sym:
            raise Unsupported("builtin method %s.%s with symbolic argument" % (type(recv).__name__, name))
        return f(*args, **kw)
    if tf is type or isinstance(f, type):
        if f in SAFE_NATIVE or issubclass(f, BaseException):
            return f(*args, **kw)
        if _is_instr_class(f):
            return f(*args, **kw)
        m = EXTRA_MODELS.get(f)
        if m is not None:
            return m(*args, **kw)
        if _anysym(args, kw):
            raise Unsupported("class %s.%s instantiated with symbolic arguments" % (f.__module__, f.__qualname__))
        return f(*args, **kw)
    if f in SAFE_NATIVE if _hashable(f) else False:
        return f(*args, **kw)
    if _anysym(args, kw):
        raise Unsupported("call of %r with symbolic arguments" % (f,))
    return f(*args, **kw)


LRU_HOOK = [None]


def _shadow(dec):
    """per-path model state of a long-lived real decoder object (its own state is whatever it was at load time)"""
    sh = E.shadows.get(id(dec))
    if sh is None:
        sh = SymUtf8Decoder()
        sh.buffer = SBytes(tuple(dec.buffer))
        E.shadows[id(dec)] = sh
    return sh


def attr(obj, name):
    if E.active and isinstance(obj, _REAL_UTF8_INCDEC):
        return getattr(_shadow(obj), name)
    return getattr(obj, name)


def _is_instr_class(c):
    for k in c.__mro__:
        for nm in ("__init__", "__new__", "__call__"):
            fn = k.__dict__.get(nm)
            fn = getattr(fn, "__func__", fn)
            if isinstance(fn, types.FunctionType) and INSTR_TAG in fn.__globals__:
                return True
    return False


def _re_func(mode):
    def model(pat, s, flags=0):
        if not deep_sym(s):
            return getattr(re, mode)(pat, s, flags)
        if is_sym(pat):
            raise Unsupported("symbolic regex pattern")
        cp = re.compile(pat, flags)
        return regex_run(cp.pattern, cp.flags, s, mode)
    return model


EXTRA_MODELS[re.match] = _re_func("match")
EXTRA_MODELS[re.search] = _re_func("search")
EXTRA_MODELS[re.fullmatch] = _re_func("fullmatch")


def _hashable(f):
    try:
        hash(f)
        return True
    except Exception:
        return False


def _anysym(args, kw):
    for a in args:
        if deep_sym(a):
            return True
    for a in kw.values():
        if deep_sym(a):
            return True
    return False
