"""Source instrumentation (AST rewrite) and loading of yarl package instances.

A *package instance* is a private copy of the `yarl` package (all modules) loaded from a
directory, either instrumented (hooks call into sx.rt) or plain ("real"), with the pure-Python
or the compiled/lowered quoting backend.  Several instances coexist in one process; none of
them stays in sys.modules (see `activate`).
"""
import ast
import contextlib
import importlib
import importlib.abc
import importlib.machinery
import importlib.util
import os
import sys
import types

RT_NAME = "_sx_rt_"
HOOKED_ATTRS = {"buffer"}
NO_WRAP = {"super", "locals", "globals", "vars", "eval", "exec", "__import__", "breakpoint"}


class T(ast.NodeTransformer):
    """semantics-preserving rewrite; rules listed in DESIGN 2.1"""

    def __init__(self):
        self.tmp = 0

    def _rt(self, name):
        return ast.Attribute(ast.Name(RT_NAME, ast.Load()), name, ast.Load())

    def _truth(self, e):
        return ast.Call(self._rt("truth"), [e], [])

    def visit_Call(self, n):
        self.generic_visit(n)
        if isinstance(n.func, ast.Name) and n.func.id in NO_WRAP:
            return n
        if isinstance(n.func, ast.Attribute) and isinstance(n.func.value, ast.Name) and n.func.value.id == RT_NAME:
            return n
        return ast.Call(self._rt("call"), [n.func] + n.args, n.keywords)

    def visit_Attribute(self, n):
        self.generic_visit(n)
        # loads of a few attribute names go through a hook: the state of a real incremental decoder object that
        # outlives a call (created at import / __init__ time) is kept in a per-path shadow model
        if isinstance(n.ctx, ast.Load) and n.attr in HOOKED_ATTRS and not (isinstance(n.value, ast.Name) and n.value.id == RT_NAME):
            return ast.Call(self._rt("attr"), [n.value, ast.Constant(n.attr)], [])
        return n

    def visit_If(self, n):
        self.generic_visit(n)
        n.test = self._truth(n.test)
        return n
    visit_While = visit_If
    visit_IfExp = visit_If

    def visit_Assert(self, n):
        self.generic_visit(n)
        n.test = self._truth(n.test)
        return n

    def visit_comprehension(self, n):
        self.generic_visit(n)
        n.ifs = [self._truth(i) for i in n.ifs]
        return n

    def visit_UnaryOp(self, n):
        self.generic_visit(n)
        if isinstance(n.op, ast.Not):
            return ast.Call(self._rt("not_"), [n.operand], [])
        return n

    def visit_Compare(self, n):
        self.generic_visit(n)
        if len(n.ops) == 1 and isinstance(n.ops[0], (ast.In, ast.NotIn)):
            c = ast.Call(self._rt("contains"), [n.comparators[0], n.left], [])
            if isinstance(n.ops[0], ast.NotIn):
                c = ast.Call(self._rt("not_"), [c], [])
            return c
        return n

    def visit_BoolOp(self, n):
        self.generic_visit(n)
        has_walrus = any(isinstance(x, ast.NamedExpr) for v in n.values for x in ast.walk(v))
        if not has_walrus:
            def lam(v):
                return ast.Lambda(ast.arguments(posonlyargs=[], args=[], kwonlyargs=[], kw_defaults=[], defaults=[]), v)
            return ast.Call(self._rt("and_" if isinstance(n.op, ast.And) else "or_"), [lam(v) for v in n.values], [])
        vals = n.values
        expr = vals[-1]
        for v in reversed(vals[:-1]):
            self.tmp += 1
            t = f"_sx_t{self.tmp}_"
            test = self._truth(ast.NamedExpr(ast.Name(t, ast.Store()), v))
            if isinstance(n.op, ast.And):
                expr = ast.IfExp(test, expr, ast.Name(t, ast.Load()))
            else:
                expr = ast.IfExp(test, ast.Name(t, ast.Load()), expr)
        return expr

    def visit_JoinedStr(self, n):
        parts = []
        for v in n.values:
            if isinstance(v, ast.Constant):
                parts.append(v)
                continue
            if v.format_spec is not None:
                fs = v.format_spec.values
                if len(fs) == 1 and isinstance(fs[0], ast.Constant):
                    spec = fs[0]
                elif len(fs) == 0:
                    spec = ast.Constant("")
                else:
                    spec = self.visit(v.format_spec)
            else:
                spec = ast.Constant("")
            parts.append(ast.Tuple([self.visit(v.value), spec, ast.Constant(v.conversion)], ast.Load()))
        return ast.Call(self._rt("fstring"), parts, [])


def instrument_source(src, filename):
    tree = T().visit(ast.parse(src, filename))
    ast.fix_missing_locations(tree)
    return compile(tree, filename, "exec")


class _Loader(importlib.abc.Loader):
    def __init__(self, path, instrumented, source=None, is_pkg=False):
        self.path, self.instrumented, self.source, self.is_pkg = path, instrumented, source, is_pkg

    def create_module(self, spec):
        return None

    def exec_module(self, module):
        src = self.source if self.source is not None else open(self.path, encoding="utf-8").read()
        if self.instrumented:
            from . import rt
            module.__dict__[RT_NAME] = rt
            code = instrument_source(src, self.path)
        else:
            code = compile(src, self.path, "exec")
        exec(code, module.__dict__)


class _Finder(importlib.abc.MetaPathFinder):
    """serves `yarl` and `yarl.*` from src_dir (a directory containing yarl/)"""

    def __init__(self, src_dir, instrumented, backend, lowered_source=None):
        self.dir = os.path.join(src_dir, "yarl")
        self.instrumented, self.backend, self.lowered = instrumented, backend, lowered_source

    def find_spec(self, name, path=None, target=None):
        if name != "yarl" and not name.startswith("yarl."):
            return None
        if name == "yarl":
            p = os.path.join(self.dir, "__init__.py")
            spec = importlib.machinery.ModuleSpec(name, _Loader(p, self.instrumented, is_pkg=True), origin=p, is_package=True)
            spec.submodule_search_locations = [self.dir]
            return spec
        sub = name.split(".", 1)[1]
        if sub == "_quoting_c":
            if self.backend != "c":
                return None    # ImportError -> yarl falls back, but we also set YARL_NO_EXTENSIONS
            if self.instrumented:
                p = os.path.join(self.dir, "_quoting_c.pyx")
                return importlib.machinery.ModuleSpec(name, _Loader(p + ":lowered", True, source=self.lowered), origin=p)
            for fn in os.listdir(self.dir):
                if fn.startswith("_quoting_c.") and fn.endswith(".so"):
                    p = os.path.join(self.dir, fn)
                    return importlib.util.spec_from_file_location(name, p)
            return None
        p = os.path.join(self.dir, sub + ".py")
        if not os.path.exists(p):
            return None
        return importlib.machinery.ModuleSpec(name, _Loader(p, self.instrumented), origin=p)


def _purge():
    out = {}
    for k in list(sys.modules):
        if k == "yarl" or k.startswith("yarl."):
            out[k] = sys.modules.pop(k)
    return out


class Pkg:
    """one loaded instance of the yarl package"""

    def __init__(self, mods, instrumented, backend):
        self.mods, self.instrumented, self.backend = mods, instrumented, backend
        top = mods["yarl"]
        self.yarl = top
        self.URL = top.URL
        self.url = mods["yarl._url"]
        self.parse = mods["yarl._parse"]
        self.path = mods["yarl._path"]
        self.query = mods["yarl._query"]
        self.quoters = mods["yarl._quoters"]
        self.quoting = mods["yarl._quoting"]
        self.quoting_py = mods.get("yarl._quoting_py")
        self.quoting_c = mods.get("yarl._quoting_c")

    @contextlib.contextmanager
    def activate(self):
        """make this instance visible as sys.modules['yarl*'] (needed for pickle)"""
        saved = _purge()
        sys.modules.update(self.mods)
        try:
            yield self
        finally:
            _purge()
            sys.modules.update(saved)

    @property
    def name(self):
        return ("sx" if self.instrumented else "real") + "-" + self.backend


def load_yarl(src_dir, instrumented, backend, lowered_source=None):
    """load a private instance of yarl from src_dir/yarl"""
    assert backend in ("py", "c")
    saved = _purge()
    finder = _Finder(src_dir, instrumented, backend, lowered_source)
    sys.meta_path.insert(0, finder)
    old_env = os.environ.get("YARL_NO_EXTENSIONS")
    if backend == "py":
        os.environ["YARL_NO_EXTENSIONS"] = "1"
    else:
        os.environ.pop("YARL_NO_EXTENSIONS", None)
    try:
        importlib.import_module("yarl")
        importlib.import_module("yarl._quoting_py")
        mods = {k: v for k, v in sys.modules.items() if k == "yarl" or k.startswith("yarl.")}
        if backend == "c" and "yarl._quoting_c" not in mods:
            raise ImportError("compiled/lowered backend requested but yarl._quoting_c did not load")
        q = mods["yarl._quoting"]
        want = mods["yarl._quoting_c"] if backend == "c" else mods["yarl._quoting_py"]
        if q._Quoter is not want._Quoter:
            raise ImportError("backend selection mismatch")
    finally:
        sys.meta_path.remove(finder)
        if old_env is None:
            os.environ.pop("YARL_NO_EXTENSIONS", None)
        else:
            os.environ["YARL_NO_EXTENSIONS"] = old_env
        _purge()
        sys.modules.update(saved)
    return Pkg(mods, instrumented, backend)


def load_instrumented_module(modname, path, source=None):
    """instrument and load a stand-alone module (harness code, oracles, known-finding predicates)"""
    from . import rt
    src = source if source is not None else open(path, encoding="utf-8").read()
    mod = types.ModuleType(modname)
    mod.__file__ = path
    mod.__dict__[RT_NAME] = rt
    sys.modules[modname] = mod
    exec(instrument_source(src, path), mod.__dict__)
    return mod
