"""Models of library code outside yarl (DESIGN 2.4): urllib.parse text functions, multidict, and the
C-implemented / table-driven pieces that symbolic text must not reach (idna, unicodedata, ipaddress)."""
import ipaddress
import os
import sys
import types
import unicodedata
import urllib.parse

import z3

from . import instrument, models
from .core import (E, SStr, SInt, SBool, SBytes, Unsupported, truth, mk_bool, ez, bv, deep_sym, is_sym, join_str, CP_MAX)
from .models import EXTRA_MODELS, exclude, utf8_prefix, _utf8_encode_cp, int_to_hex, simp_elem

HEXDIG = "0123456789ABCDEFabcdef"


# ------------------------------------------------------------------ urllib.parse
def _hexval(z):
    isd = z3.And(z >= 48, z <= 57)
    isu = z3.And(z >= 65, z <= 70)
    return z3.If(isd, z - 48, z3.If(isu, z - 55, z - 87))


def _is_hex(c):
    from .core import in_ranges, ranges_of
    return mk_bool(in_ranges(ez(c), ranges_of(HEXDIG)))


def utf8_decode_replace(bs):
    """bytes.decode('utf-8', 'replace') as CPython does it: one U+FFFD per maximal invalid subpart"""
    out = []
    pos = 0
    n = len(bs)
    while pos < n:
        r = utf8_prefix(bs[pos:pos + 4])
        if r[0] == "ok":
            out.append(simp_elem(E.bind(r[1], 0, CP_MAX) if not isinstance(r[1], int) else r[1]))
            pos += r[2]
            continue
        out.append(0xFFFD)
        if r[0] == "more":
            break                      # truncated sequence at the end: one replacement for the rest
        # invalid: skip the start byte plus the continuation bytes that were acceptable so far
        k = 1
        while k < 3 and pos + k < n:
            rr = utf8_prefix(bs[pos:pos + k + 1])
            if rr[0] == "more":
                k += 1
            else:
                break
        pos += k
    return out


def m_unquote(string, encoding="utf-8", errors="replace"):
    """urllib.parse.unquote"""
    if not is_sym(string):
        return urllib.parse.unquote(string, encoding, errors)
    if encoding.replace("-", "").lower() != "utf8" or errors != "replace":
        raise Unsupported("unquote(encoding=%r, errors=%r)" % (encoding, errors))
    s = SStr.of(string)
    e = s.e
    n = len(e)
    out = []
    run = []         # pending decoded bytes of an escape run

    def flush():
        if run:
            out.extend(utf8_decode_replace(list(run)))
            run.clear()
    i = 0
    while i < n:
        c = e[i]
        if i + 2 < n + 0 and i + 2 <= n - 1 and truth(mk_bool(ez(c) == 37)) and truth(_is_hex(e[i + 1])) and truth(_is_hex(e[i + 2])):
            b = _hexval(ez(e[i + 1])) * 16 + _hexval(ez(e[i + 2]))
            run.append(simp_elem(E.bind(b, 0, 255)))
            i += 3
            continue
        # urllib decodes each maximal run of ASCII text (which contains the escapes) separately:
        # a non-ASCII character ends the run; an ASCII one continues it as its own byte
        if truth(mk_bool(ez(c) < 128)):
            if run:
                run.append(c)
            else:
                out.append(c)
        else:
            flush()
            out.append(c)
        i += 1
    flush()
    return SStr(out).simp()


def m_parse_qsl(qs, keep_blank_values=False, strict_parsing=False, encoding="utf-8", errors="replace",
                max_num_fields=None, separator="&"):
    if not deep_sym(qs):
        return urllib.parse.parse_qsl(qs, keep_blank_values, strict_parsing, encoding, errors, max_num_fields, separator)
    if strict_parsing or max_num_fields is not None or separator != "&":
        raise Unsupported("parse_qsl options")
    r = []
    for name_value in SStr.of(qs).split("&"):
        if not name_value:
            continue
        nv = SStr.of(name_value).split("=", 1)
        if len(nv) != 2:
            if keep_blank_values:
                nv.append("")
            else:
                continue
        if len(nv[1]) or keep_blank_values:
            name = m_unquote(_plus_to_space(nv[0]), encoding, errors)
            value = m_unquote(_plus_to_space(nv[1]), encoding, errors)
            r.append((name, value))
    return r


def _plus_to_space(s):
    if isinstance(s, str):
        return s.replace("+", " ")
    return SStr([simp_elem(z3.If(c == 43, bv(32), c)) if not isinstance(c, int) else (32 if c == 43 else c) for c in s.e]).simp()


def m_quote(string, safe="/", encoding=None, errors=None):
    if not is_sym(string):
        return urllib.parse.quote(string, safe, encoding, errors)
    if encoding not in (None, "utf-8") or errors not in (None, "strict"):
        raise Unsupported("quote options")
    always = "ABCDEFGHIJKLMNOPQRSTUVWXYZabcdefghijklmnopqrstuvwxyz0123456789_.-~" + safe
    out = []
    from .core import in_ranges, ranges_of
    for c in SStr.of(string).e:
        if isinstance(c, int):
            out.extend(ord(x) for x in urllib.parse.quote(chr(c), safe))
            continue
        if truth(mk_bool(in_ranges(c, ranges_of(always)))):
            out.append(c)
            continue
        for b in _utf8_encode_cp(c, "strict"):
            out.append(37)
            out.extend(int_to_hex(SInt(b, 0, 255) if not isinstance(b, int) else b, 2, upper=True))
    return SStr(out).simp()


EXTRA_MODELS[urllib.parse.unquote] = m_unquote
EXTRA_MODELS[urllib.parse.parse_qsl] = m_parse_qsl
EXTRA_MODELS[urllib.parse.quote] = m_quote


# ------------------------------------------------------------------ symbolic text must not reach these (counted exclusions)
def _guard(real, label, nargs=1):
    def model(*a, **k):
        if deep_sym(a) or deep_sym(tuple(k.values())):
            exclude(label)
        return real(*a, **k)
    return model


EXTRA_MODELS[unicodedata.normalize] = _guard(unicodedata.normalize, "symbolic non-ASCII authority text (NFKC screen is C code)")
EXTRA_MODELS[ipaddress.ip_address] = _guard(ipaddress.ip_address, "symbolic host text that looks like an IP literal (ends in a digit or contains ':')")
try:
    import idna
    EXTRA_MODELS[idna.encode] = _guard(idna.encode, "IDNA encoding of symbolic host text")
    EXTRA_MODELS[idna.decode] = _guard(idna.decode, "IDNA decoding of symbolic host text")
except ImportError:      # pragma: no cover
    pass


# ------------------------------------------------------------------ multidict: the package's own pure-Python reference, instrumented
def _load_multidict():
    import multidict
    from multidict import _multidict_py as real_py
    path = real_py.__file__
    mod = types.ModuleType("multidict._sx_multidict_py")
    mod.__file__ = path
    mod.__package__ = "multidict"
    from . import rt
    mod.__dict__[instrument.RT_NAME] = rt
    sys.modules[mod.__name__] = mod
    exec(instrument.instrument_source(open(path, encoding="utf-8").read(), path), mod.__dict__)

    def _update_items(self, items):
        """port of MultiDict._update_items with the identity->position hash-dict replaced by an
        association list (symbolic keys cannot be hashed)"""
        if not items:
            return
        used = []       # [identity, next position]

        def lookup(identity):
            for ent in used:
                if truth(ent[0] == identity):
                    return ent
            return None
        its = self._impl._items
        for identity, key, value in items:
            ent = lookup(identity)
            start = ent[1] if ent is not None else 0
            found = False
            for i in range(start, len(its)):
                if truth(its[i][0] == identity):
                    if ent is None:
                        ent = [identity, 0]
                        used.append(ent)
                    ent[1] = i + 1
                    its[i] = (identity, key, value)
                    found = True
                    break
            if not found:
                its.append((identity, key, value))
                if ent is None:
                    ent = [identity, 0]
                    used.append(ent)
                ent[1] = len(its)
        i = 0
        while i < len(its):
            ent = lookup(its[i][0])
            if ent is None:
                i += 1
                continue
            if i >= ent[1]:
                del its[i]
            else:
                i += 1
        self._impl.incr_version()
    mod.MultiDict._update_items = _update_items
    return multidict, mod


try:
    _md_real, MD = _load_multidict()
    EXTRA_MODELS[_md_real.MultiDict] = MD.MultiDict
    EXTRA_MODELS[_md_real.MultiDictProxy] = MD.MultiDictProxy
    EXTRA_MODELS[_md_real.CIMultiDict] = MD.CIMultiDict
except Exception as _e:      # pragma: no cover
    MD = None
    _MD_ERROR = _e
