"""Region predicates of the open known findings (loaded through the instrumenter).

Each predicate takes the harness context and returns a bool/SBool *term* over ctx.inputs / ctx.notes --
no symbolic branching is allowed inside (the engine raises if a predicate forks)."""
from sx.core import all_of, any_of
