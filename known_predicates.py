"""Region predicates of the open known findings (loaded through the instrumenter).

Each predicate takes the harness context and returns a bool/SBool *term* over ctx.inputs / ctx.notes --
no symbolic branching is allowed inside (the engine raises if a predicate forks)."""
from sx.core import all_of, any_of


def c15_root_pop(ctx):
    """F04: merged child path has a '..' segment and, later, an empty segment ('//')"""
    m = ctx.notes.get("merged")
    if m is None:
        return False
    n = len(m)
    alts = []
    for i in range(n - 2):
        dd = all_of([m[i:i + 3] == "/..", True if i + 3 == n else m[i + 3] == "/"])
        for j in range(i + 3, n - 1):
            alts.append(all_of([dd, m[j:j + 2] == "//"]))
    return any_of(alts)


def c09_collapsed_authority(ctx):
    """F09: the input had a non-empty authority text but the stored netloc is empty"""
    a = ctx.notes.get("authority_text")
    st = ctx.notes.get("stored_netloc")
    if a is None or st is None:
        return False
    return len(a) > 0 and len(st) == 0


USES_NETLOC = ("ftp", "http", "gopher", "nntp", "telnet", "imap", "wais", "file", "mms", "https", "shttp", "snews", "prospero", "rtsp", "rtspu",
               "rsync", "svn", "svn+ssh", "sftp", "nfs", "git", "git+ssh", "ws", "wss", "itms-services")


def c03_scheme_rootless(ctx):
    """F13: a URL with a uses-authority scheme, no authority and a non-empty rootless path"""
    sc = ctx.notes.get("u_scheme")
    nl = ctx.notes.get("u_netloc")
    p = ctx.notes.get("u_path")
    if sc is None or nl is None or p is None:
        return False
    if len(nl) != 0 or len(p) == 0:
        return False
    return all_of([any_of([sc == s for s in USES_NETLOC]), p[0] != "/"])


def c09_bracketed_non_ip(ctx):
    """F15: the authority text had brackets, the stored netloc has none (the host was not an IP literal)"""
    a = ctx.notes.get("authority_text")
    st = ctx.notes.get("stored_netloc")
    if a is None or st is None:
        return False
    return all_of(["[" in a, ("[" in st) == False])  # noqa: E712


def c03_colon_first_segment(ctx):
    """F16: schemeless URL without authority whose (canonical) first path segment contains ':'"""
    sc = ctx.notes.get("u_scheme")
    nl = ctx.notes.get("u_netloc")
    p = ctx.notes.get("u_path")
    if sc is None or nl is None or p is None:
        return False
    if len(sc) != 0 or len(nl) != 0:
        return False
    alts = []
    for i in range(len(p)):
        alts.append(all_of([p[i] == ":"] + [p[j] != "/" for j in range(i)]))
    return any_of(alts)


def c19_build_authority_bracket(ctx):
    """F18: URL.build(authority=<text with a '['>): a bracketed host that is not an IP literal loses its brackets"""
    a = ctx.inputs.get("a")
    if a is None or not ctx.notes.get("build_authority"):
        return False
    return "[" in a
